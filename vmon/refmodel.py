"""
Reference models for the synchronous API (DESIGN.md 3.5): 10-30 line
executable statements of the documented semantics, written against plain
names (strings), never against library objects.
"""
import itertools


def closure(req, members=None):
    """transitive closure of `req` (name -> set of names), restricted to
    `members` when given (edges through non-members do not count)"""
    if members is None:
        members = set(req)
    clo = {a: {b for b in req.get(a, ()) if b in members} for a in members}
    changed = True
    while changed:
        changed = False
        for a in members:
            new = set()
            for b in clo[a]:
                new |= clo[b]
            if not new <= clo[a]:
                clo[a] |= new
                changed = True
    return clo


def is_acyclic(req, members=None):
    clo = closure(req, members)
    return not any(a in clo[a] for a in clo)


def valid_topological_order(order, req, members):
    """every member exactly once, each after all of its (member) requirements"""
    if sorted(order) != sorted(members):
        return False
    pos = {j: i for i, j in enumerate(order)}
    return all(pos[b] < pos[a] for a in members for b in req.get(a, ()) if b in members)


def reverse(req, members):
    succ = {a: set() for a in members}
    for a in members:
        for b in req.get(a, ()):
            if b in members:
                succ[b].add(a)
    return succ


def decode_digraph(n, bits, self_loops):
    """adjacency from an integer: edge a->b means a requires b"""
    req = {i: set() for i in range(n)}
    k = 0
    for a in range(n):
        for b in range(n):
            if a == b and not self_loops:
                continue
            if bits >> k & 1:
                req[a].add(b)
            k += 1
    return req


def digraph_space(n, self_loops):
    return 2 ** (n * n if self_loops else n * (n - 1))


def decode_dag(n, bits):
    """DAGs on a fixed order: a may require b only when b < a (every DAG up
    to relabelling; labels are permuted separately)"""
    req = {i: set() for i in range(n)}
    k = 0
    for a in range(n):
        for b in range(a):
            if bits >> k & 1:
                req[a].add(b)
            k += 1
    return req


def dag_space(n):
    return 2 ** (n * (n - 1) // 2)


def subsets_upto(items, k):
    items = list(items)
    for r in range(0, k + 1):
        for c in itertools.combinations(items, r):
            yield set(c)
