"""
Campaign plans: which workloads feed which property, per tier (DESIGN.md 4, 7).

A source is one of
  ('random', profile, count, runner)      random admissible trees of a profile
  ('sweep',  name, loop_seeds, runner)    systematic sweep, each scenario run
                                          under `loop_seeds` schedules (the
                                          first is FIFO with the original
                                          hashes, the others use a seeded
                                          timer tie-break and permuted hashes)
  ('cases',  name, count)                 synchronous-API case generator
counts are for the quick tier; the thorough tier multiplies random and case
counts by THOROUGH_FACTOR and runs the larger sweep grids under more schedules.
"""

THOROUGH_FACTOR = 24

RUNTIME = {
    'C01': [('sweep', 'gap', 3, 'trace'), ('random', 'vwin', 2000, 'trace'), ('random', 'big', 2500, 'trace'), ('random', 'ties', 12000, 'trace'), ('random', 'generic', 6000, 'trace'),
            ('random', 'nesting', 6000, 'trace'), ('random', 'windows', 3000, 'trace'),
            ('random', 'forever', 2000, 'trace'), ('sweep', 'tie', 4, 'trace'),
            ('suite',)],
    'C02': [('sweep', 'fanout', 6, 'trace'), ('sweep', 'gap', 6, 'trace'), ('random', 'vwin', 4000, 'trace'), ('random', 'big', 2500, 'trace'), ('random', 'ties', 14000, 'trace'), ('random', 'windows', 5000, 'trace'),
            ('random', 'forever', 5000, 'trace'), ('random', 'generic', 5000, 'trace'),
            ('sweep', 'tie', 4, 'trace'), ('sweep', 'window', 2, 'trace'),
            ('suite',)],
    'C03': [('random', 'big', 2500, 'trace'), ('random', 'windows', 12000, 'trace'), ('random', 'generic', 6000, 'trace'),
            ('random', 'abort', 4000, 'trace'), ('random', 'forever', 4000, 'trace'),
            ('random', 'nesting', 4000, 'trace'), ('sweep', 'window', 3, 'trace'),
            ('sweep', 'phasew', 2, 'trace')],
    'C04': [('random', 'cwin', 3000, 'trace'), ('sweep', 'cube', 4, 'trace'), ('random', 'abort', 12000, 'trace'),
            ('random', 'generic', 6000, 'trace'), ('random', 'nesting', 6000, 'trace'),
            ('random', 'ties', 4000, 'trace')],
    'C05': [('random', 'cwin', 3000, 'trace'), ('sweep', 'gap', 6, 'trace'), ('random', 'vwin', 2000, 'trace'), ('random', 'big', 1500, 'trace'), ('random', 'abort', 16000, 'trace'), ('random', 'windows', 4000, 'trace'),
            ('random', 'nesting', 5000, 'trace'), ('sweep', 'phase', 2, 'trace'),
            ('sweep', 'cube', 2, 'trace')],
    'C06': [('sweep', 'gap', 6, 'c06'), ('random', 'vwin', 2000, 'c06'), ('random', 'windows', 8000, 'c06'), ('random', 'generic', 5000, 'c06'),
            ('random', 'nesting', 5000, 'c06'), ('random', 'ties', 3000, 'c06'),
            ('sweep', 'window', 2, 'c06')],
    'C07': [('random', 'big', 2500, 'trace'), ('random', 'windows', 15000, 'trace'), ('random', 'nesting', 5000, 'trace'),
            ('random', 'abort', 4000, 'trace'), ('sweep', 'phasew', 3, 'trace'),
            ('sweep', 'window', 3, 'trace'),
            ('suite',)],
    'C08': [('random', 'cwin', 4000, 'trace'), ('random', 'abort', 12000, 'trace'), ('random', 'generic', 6000, 'trace'),
            ('random', 'nesting', 4000, 'trace'), ('sweep', 'phase', 2, 'trace'),
            ('sweep', 'cube', 2, 'trace'), ('sweep', 'phasew', 2, 'trace')],
    'C09': [('random', 'forever', 16000, 'trace'), ('random', 'generic', 5000, 'trace'),
            ('random', 'nesting', 4000, 'trace'), ('sweep', 'phase', 2, 'trace'),
            ('sweep', 'tie', 4, 'trace')],
    'C10': [('random', 'cwin', 6000, 'trace'), ('random', 'nesting', 10000, 'trace'), ('sweep', 'cube', 3, 'trace'),
            ('random', 'nesting', 8000, 'twin'), ('random', 'generic', 4000, 'twin'),
            ('random', 'ties', 3000, 'twin')],
    'C11': [('sweep', 'gap', 6, 'trace'), ('random', 'vwin', 2000, 'trace'), ('sweep', 'extcancel', 2, 'trace'), ('random', 'big', 1500, 'trace'), ('sweep', 'phase', 3, 'trace'), ('sweep', 'phasew', 3, 'trace'),
            ('random', 'nesting', 8000, 'trace'), ('random', 'abort', 6000, 'trace'),
            ('random', 'generic', 5000, 'trace'), ('random', 'shutdown', 4000, 'trace'),
            ('suite',)],
    'C12': [('sweep', 'fanout', 3, 'trace'), ('sweep', 'gap', 6, 'trace'), ('random', 'vwin', 4000, 'trace'), ('random', 'big', 2500, 'trace'), ('random', 'ties', 12000, 'trace'), ('random', 'windows', 10000, 'trace'),
            ('random', 'generic', 4000, 'trace'), ('random', 'forever', 3000, 'trace'),
            ('sweep', 'tie', 4, 'trace'), ('sweep', 'window', 2, 'trace'),
            ('random', 'ties', 4000, 'perm'), ('random', 'nesting', 3000, 'perm')],
    'C13': [('random', 'shutdown', 14000, 'trace'), ('sweep', 'phase', 2, 'trace'),
            ('random', 'nesting', 5000, 'trace'), ('random', 'abort', 4000, 'trace'),
            ('random', 'generic', 3000, 'trace'), ('sweep', 'phasew', 2, 'trace'),
            ('suite',)],
    'C14': [('sweep', 'gap', 6, 'poll'), ('random', 'vwin', 3000, 'poll'), ('random', 'generic', 6000, 'poll'), ('random', 'windows', 6000, 'poll'),
            ('random', 'abort', 4000, 'poll'), ('random', 'nesting', 4000, 'poll'),
            ('random', 'forever', 3000, 'poll'), ('sweep', 'window', 1, 'poll')],
}

# counters that must be non-zero for a verdict "held" (else INCONCLUSIVE)
DECIDING = {
    'C01': ['start-vs-requirement pairs', 'joins with requirements ending at distinct instants',
            'starts requiring a nested scheduler', 'nested-job start vs scheduler requirement'],
    'C02': ['jobs whose entries were counted', 'non-forever jobs of successful runs',
            'joins whose requirements ended in one instant'],
    'C03': ['runs judged', 'windowed schedulers with a raising job'],
    'C04': ['verdicts checked against events (iff clause)', 'success forms checked', 'failure forms checked',
            'identity checks of the re-raised exception', 'TimeoutError raised by a critical scheduler',
            'timeout=0 runs'],
    'C05': ['critical aborts analysed', 'aborts with cancel requests attributed to jobs', 'jobs running at the abort instant',
            'jobs queued for a slot at the abort instant', 'abort -> shutdown -> end sequences timed'],
    'C06': ['pairs in which a flipped job actually ran', '  ... under a window', '  ... inside a nested scheduler',
            'raised exceptions re-read from the job'],
    'C07': ['windowed scheduler runs replayed', 'runs with more jobs than slots',
            'windows holding nested schedulers'],
    'C08': ['expiries analysed', 'aborts with cancel requests attributed to jobs', 'jobs running at the abort instant',
            'runs over strictly before expiry (timeout must have no effect)',
            '  ... nested (T measured from its own start)'],
    'C09': ['successful runs analysed', 'aborts with cancel requests attributed to jobs', 'forever jobs cut short', 'forever jobs never started',
            'forever jobs that ended before the last regular job'],
    'C10': ['nested runs observed', 'failed runs of non-critical nested schedulers',
            'failed runs of critical nested schedulers', 'exception identity checked one level up',
            'nested/flattened twins compared'],
    'C11': ['top-level runs followed by a run-on period', 'scheduler run ends examined (run_cancel)',
            'shutdown handlers launched before a run end'],
    'C12': ['eligible jobs in unwindowed schedulers', '  ... whose requirements finished in one instant',
            'quiescent instants of windowed schedulers examined',
            '  ... with eligible jobs waiting behind a full window',
            'job start/end instants compared across orders'],
    'C13': ['atoms counted at a run end', 'shutdown events checked against running siblings',
            'shutdown phases timed', 'co_shutdown() returning False', 'explicit shutdown() after the run',
            'shutdown phases cut at shutdown_timeout'],
    'C14': ['job states polled', 'result() identity checks', 'raised_exception() identity checks',
            'AbstractJob subclass seen queued', 'coroutine Job seen cancelled', 'nested scheduler seen running'],
}

RULES = {
    'C01': "random admissible scheduler trees (profiles ties/generic/nesting/windows/forever) and the tie sweep, each "
           "executed on the virtual-time loop; a case is non-trivial when some start has >=2 requirements ending at "
           ">=2 distinct instants or in one instant but different loop iterations, or requires a nested scheduler or "
           "a job that raised; distinct = distinct (kind, job, time) event sequences",
    'C02': "as C01 with tie-rich profiles; non-trivial = a successful scheduler run with non-forever jobs was "
           "checked; distinct = distinct event sequences",
    'C03': "admissible trees (independent predicate, strict); non-trivial = some job raised, or a windowed scheduler "
           "held a raising job, or a timeout scheduler held a never-ending job; distinct = distinct event sequences",
    'C04': "flag cube sweep + random trees; non-trivial = at least one scheduler verdict was compared with the cause "
           "derived from events; distinct = distinct event sequences",
    'C05': "abort-biased trees + phase sweep + flag cube; non-trivial = a critical abort during which at least one "
           "sibling was running or queued; distinct = distinct event sequences",
    'C06': "metamorphic pairs: 1-3 non-critical finite jobs flipped from return to raise; non-trivial = a flipped "
           "job actually ran; distinct = distinct event sequences of the raising run",
    'C07': "windowed trees; non-trivial = the window was saturated (max simultaneously executing == N); "
           "distinct = distinct event sequences",
    'C08': "abort-biased trees + phase sweep + flag cube; non-trivial = an expiry with a job running or queued, or a "
           "run over strictly before its expiry; distinct = distinct event sequences",
    'C09': "forever-biased trees + phase sweep (forever mode) + tie sweep; non-trivial = success with a forever job "
           "running or queued at that instant; distinct = distinct event sequences",
    'C10': "nesting-biased trees + flag cube (trace clauses) and nested/flattened twins; non-trivial = a nested run "
           "was observed / a twin pair was compared; distinct = distinct event sequences",
    'C11': "phase sweeps (crash points) + random trees, each followed by a 1000 s virtual run-on; non-trivial = a "
           "nested run was cancelled by its enclosing scheduler; distinct = distinct event sequences",
    'C12': "tie-rich and windowed trees + tie/window sweeps; non-trivial = a job with requirements was timed, or "
           "eligible jobs waited behind a full window; distinct = distinct event sequences",
    'C13': "shutdown-biased trees + phase sweeps; non-trivial = a scheduler run end was checked for complete "
           "shutdown; distinct = distinct event sequences",
    'C14': "trees polled at every quiescent point; non-trivial = a job was seen queued for a slot or cancelled; "
           "distinct = distinct event sequences",
}
