"""
Runners: how one scenario is turned into one judged case for a property.

trace runner    : execute once, replay the log through the property's monitor
pair runner C06 : metamorphic pair (non-critical job returns <-> raises)
twin runner C10 : metamorphic pair (nested tree <-> flattened graph)
poll runner C14 : online monitor of the inspection API at every quiescent point
"""
import copy
import random

from .jobs import execute
from .model import Model, trace_repr, END_OK, END_KO
from .monitors import MONITORS, Out
from .spec import walk, is_sched, make_admissible, admissible


class Case:
    """the judged outcome of one case"""
    def __init__(self, out, fingerprint, events, replay, sample=None, ties=0):
        self.out = out
        self.fingerprint = fingerprint
        self.events = events
        self.replay = replay
        self.sample = sample
        self.ties = ties


def sample_of(spec, exe, limit=60):
    return dict(spec=spec, loop_seed=exe.loop_seed, verdict=repr(exe.verdict),
                trace=["%d t=%s it=%d %s %s" % (e['seq'], e['t'], e['it'], e['kind'], e['who'])
                       for e in exe.trace.events[:limit]])


# ------------------------------------------------------------------ trace runner
def run_trace(prop, spec, loop_seed):
    hist = spec.get('history') or {}
    quiescent = None
    state = dict(n=0)
    if hist.get('mid'):
        from .jobs import inspect_everything

        def quiescent(trace, reg, loop, nxt):
            # read-only queries in the middle of the run, at quiescent points
            state['n'] += 1
            if state['n'] % 2 == 0:
                inspect_everything(reg[spec['id']], reg, state['n'] // 2)
    exe = execute(spec, loop_seed=loop_seed, quiescent=quiescent)
    m = Model(exe)
    out = Out(prop)
    MONITORS[prop](m, out)
    if hist.get('pre'):
        out.count('runs preceded by inspections / neutral edit pairs')
    if hist.get('mid'):
        out.count('runs with read-only API sweeps in the middle')
    if hist.get('post'):
        out.count('runs followed by a read-only API sweep before the final readings')
    if exe.verdict[0] in ('wedged', 'horizon') and prop != 'C03':
        # the run did not terminate: that is C03's verdict; clauses that need
        # a finished run were not evaluated
        out.count('runs that did not terminate (left to C03)')
    return Case(out, m.fingerprint(), len(exe.trace.events),
                dict(spec=spec, loop_seed=loop_seed), sample_of(spec, exe), exe.loop.timer_ties)


# ------------------------------------------------------------------ C06
def _signature(m, skip=()):
    sig = {}
    for j in m.node:
        en, be, e = m.enter(j), m.body_end(j), m.end(j)
        if j in skip:
            # the flipped jobs themselves: same start and end instants
            sig[j] = (en and en['t'], be and be['t'])
            continue
        kind = None if e is None else ('return' if e['kind'] in END_OK else 'raise')
        val = e.get('val') if (e is not None and e['kind'] == 'run_return') else None
        sds = tuple(x['t'] for x in m.all(j, ('sd_enter', 'shut_enter')))
        sig[j] = (en and en['t'], be and be['t'], be and be['kind'], kind, val, sds)
    v = m.exe.verdict
    sig['<run()>'] = (v[0], v[1] if v[0] == 'return' else type(v[1]).__name__, m.exe.t_return)
    return sig


def run_c06(prop, spec, loop_seed, flip=None):
    out = Out('C06')
    rng = random.Random(repr((spec['id'], loop_seed, len(spec['jobs']))))
    cands = [n['id'] for n, p, d in walk(spec)
             if not is_sched(n) and not n.get('critical', True) and n.get('dur', 0) is not None]
    if flip is None:
        if not cands:
            out.count('scenarios without a non-critical finite job (skipped)')
            return Case(out, None, 0, dict(spec=spec, loop_seed=loop_seed))
        k = rng.choice([1, 1, 1, 2, 3])
        flip = sorted(rng.sample(cands, min(k, len(cands))))
    a, b = copy.deepcopy(spec), copy.deepcopy(spec)
    for n, p, d in walk(a):
        if n['id'] in flip:
            n['outcome'] = 'return'
    for n, p, d in walk(b):
        if n['id'] in flip:
            n['outcome'] = 'raise'
    ea, eb = execute(a, loop_seed=loop_seed), execute(b, loop_seed=loop_seed)
    ma, mb = Model(ea), Model(eb)
    out.count('pairs of runs compared')
    out.count('pairs flipping %d job(s)' % len(flip))
    if not (ea.terminated and eb.terminated):
        if ea.terminated != eb.terminated:
            out.violation('termination-differs', "with %s returning run() gives %r, with them raising %r"
                          % (flip, ea.verdict, eb.verdict))
        else:
            out.count('pairs in which neither run terminated (left to C03)')
        return Case(out, mb.fingerprint(), len(eb.trace.events),
                    dict(spec=spec, loop_seed=loop_seed, flip=flip))
    sa, sb = _signature(ma, flip), _signature(mb, flip)
    for x in sa:
        out.count('job/scheduler signatures compared')
        if sa[x] != sb[x]:
            out.violation('run-differs',
                          "flipping %s from return to raise changes %s: (start, end, ...) %r -> %r"
                          % (flip, x, sa[x], sb[x]))
    started = 0
    for j in flip:
        ev = mb.end(j)
        if mb.enter(j) is not None:
            started += 1
        if ev is not None and ev['kind'] == 'raise':
            out.count('raised exceptions re-read from the job')
            got = eb.final.get(j, {}).get('exc')
            if got is not ev['exc']:
                out.violation('exception-not-retrievable', "%s raised %r but raised_exception() is %r"
                              % (j, ev['exc'], got))
            for q in mb.succ[j]:
                out.count('jobs requiring a failed non-critical job')
                if ma.enter(q) is not None and mb.enter(q) is None:
                    out.violation('dependant-not-run', "%s requires %s and ran only when %s returned" % (q, j, j))
    if started:
        out.nontrivial = True
        out.count('pairs in which a flipped job actually ran')
        windowed = any(mb.node[mb.parent[j]].get('window') for j in flip)
        nested = any(mb.depth[j] >= 2 for j in flip)
        if windowed:
            out.count('  ... under a window')
        if nested:
            out.count('  ... inside a nested scheduler')
    sample = dict(flip=flip, **sample_of(b, eb, 40))
    return Case(out, mb.fingerprint(), len(ea.trace.events) + len(eb.trace.events),
                dict(spec=spec, loop_seed=loop_seed, flip=flip), sample, eb.loop.timer_ties)


# ------------------------------------------------------------------ C10 twins
def restrict_for_twin(spec, rng, top=True):
    """the sub-domain on which the statement promises equal times: nested
    schedulers critical, not forever, without window / timeout / forever jobs;
    cancellation and shutdown handlers taking zero time"""
    spec['timeout'] = None
    spec['window'] = None
    spec['verbose'] = False
    if not top:
        spec['critical'] = True
        spec['forever'] = False
    for j in spec['jobs']:
        if is_sched(j):
            restrict_for_twin(j, rng, False)
        else:
            j['sdur'] = 0
            j['cdur'] = 0
            j['cyields'] = 0
            j['syields'] = 0
            j.pop('itmo', None)         # its clean-up is a cancellation delay too
            if not top:
                j['forever'] = False
                if j.get('dur', 0) is None:
                    j['dur'] = 1
                    j.pop('ticker', None)
    if top:
        make_admissible(rng, spec)
    return spec


def flatten(spec):
    """flattened twin: entry jobs of a nested N inherit N's requirements,
    jobs requiring N require N's exit jobs, an empty N becomes an
    instantaneous placeholder atom"""
    atoms, edges = [], []
    exits = {}

    def rec(s, inherited):
        req = {j['id']: [] for j in s['jobs']}
        for a, b in s.get('edges', []):
            req[a].append(b)
        done, order = set(), []
        while len(order) < len(s['jobs']):
            for j in s['jobs']:
                if j['id'] not in done and all(r in done for r in req[j['id']]):
                    done.add(j['id'])
                    order.append(j)
        has_succ = {b for a, b in s.get('edges', [])}
        for j in order:
            reqs = []
            for r in req[j['id']]:
                reqs += exits[r]
            if not req[j['id']]:
                reqs += inherited
            if is_sched(j):
                if not j['jobs']:
                    ph = dict(id=j['id'] + '.placeholder', dur=0, critical=False, placeholder=True)
                    atoms.append(ph)
                    for r in set(reqs):
                        edges.append([ph['id'], r])
                    exits[j['id']] = [ph['id']]
                else:
                    rec(j, reqs)
            else:
                a = copy.deepcopy(j)
                atoms.append(a)
                for r in sorted(set(reqs)):
                    edges.append([a['id'], r])
                exits[j['id']] = [a['id']]
        ex = []
        for j in s['jobs']:
            if j['id'] not in has_succ:
                ex += exits[j['id']]
        exits[s['id']] = ex
    rec(spec, [])
    flat = {k: v for k, v in spec.items() if k not in ('jobs', 'edges')}
    for i, a in enumerate(atoms):
        a['hash'] = i
    flat['jobs'] = atoms
    flat['edges'] = edges
    return flat


def _twin_sig(m):
    exe = m.exe
    tend = exe.t_return
    sig = {}
    for j, n in m.node.items():
        if m.is_sched[j] or n.get('placeholder'):
            continue
        en, e = m.enter(j), m.end(j)
        # events at the final instant of an aborted run are compared only as
        # "completed or not" (tie policy: the nested run learns of a failure a
        # few iterations later than the flat one, within the same instant)
        ent = en['t'] if en is not None and en['t'] < tend else None
        if e is not None and e['t'] < tend:
            sig[j] = (ent, e['t'], e['kind'])
        else:
            sig[j] = (ent, None, None)
    v = exe.verdict
    # which of several critical raisers tied at one instant wins is a matter of
    # loop iterations (tie policy); the identity of the exception is judged by
    # the propagation clauses, not by the twins
    sig['<run()>'] = (v[0], v[1] if v[0] == 'return' else 'exception', tend)
    return sig


def run_twin(prop, spec, loop_seed):
    out = Out('C10')
    spec = restrict_for_twin(copy.deepcopy(spec), random.Random(repr(loop_seed)))
    spec.pop('history', None)        # histories name nested schedulers, which the flat twin does not have
    nested = [n for n, p, d in walk(spec) if is_sched(n) and p is not None]
    if not nested:
        out.count('trees without nested scheduler (skipped)')
        return Case(out, None, 0, dict(spec=spec, loop_seed=loop_seed, twin=True))
    flat = flatten(spec)
    if admissible(flat, strict=False) or admissible(spec, strict=False):
        out.count('twins outside the domain after flattening (skipped)')
        return Case(out, None, 0, dict(spec=spec, loop_seed=loop_seed, twin=True))
    ea, eb = execute(spec, loop_seed=loop_seed), execute(flat, loop_seed=loop_seed)
    ma, mb = Model(ea), Model(eb)
    out.count('nested/flattened twins compared')
    out.count('twins of depth %d' % max(d for n, p, d in walk(spec) if is_sched(n)))
    if any(not n['jobs'] for n in nested):
        out.count('twins with an empty nested scheduler')
    if not (ea.terminated and eb.terminated):
        out.violation('twin-termination', "nested run: %r, flattened run: %r" % (ea.verdict, eb.verdict))
    else:
        sa, sb = _twin_sig(ma), _twin_sig(mb)
        va, vb = sa.pop('<run()>'), sb.pop('<run()>')
        ra, rb = ma.run(ma.top), mb.run(mb.top)
        if va != vb:
            # tie policy: when, in one of the two runs, several causes fall in
            # the final instant (e.g. a critical forever job raising in the very
            # instant the last regular job ends) the nested run may see them in
            # another order than the flat one: accepted iff both end at the same
            # instant and such a tie was observed
            ok_run = ra if va[:2] == ('return', True) else rb if vb[:2] == ('return', True) else None
            ko_run = rb if ok_run is ra else ra
            tie = (va[2] == vb[2] and ok_run is not None and ko_run is not None and
                   ok_run.t_all == va[2] and ko_run.tc == va[2])
            if tie:
                out.count('twins whose verdicts differ by a tie in the final instant (accepted)')
            else:
                out.violation('twin-verdict', "run(): nested tree %r, flattened graph %r" % (va, vb))
        for x in sa:
            out.count('job timings compared between twins')
            if sa[x] != sb.get(x):
                out.violation('twin-differs', "%s: nested tree %r, flattened graph %r" % (x, sa[x], sb.get(x)))
        out.nontrivial = True
        if ea.verdict[0] == 'raise' or ea.verdict == ('return', False):
            out.count('twins ending in failure')
    sample = dict(flat_edges=flat['edges'], **sample_of(spec, ea, 40))
    return Case(out, ma.fingerprint(), len(ea.trace.events) + len(eb.trace.events),
                dict(spec=spec, loop_seed=loop_seed, twin=True), sample, ea.loop.timer_ties)


# ------------------------------------------------------------------ C14
def run_poll(prop, spec, loop_seed):
    out = Out('C14')
    prev = {}
    state = dict(polls=0)
    top_id = spec['id']

    def observed(trace, vid):
        ent = ret = rai = can = None
        for e in reversed(trace.events):
            if e['who'] != vid:
                continue
            k = e['kind']
            if k in ('enter', 'run_enter'):
                ent = e
            elif k in END_OK:
                ret = e
            elif k in END_KO:
                rai = e
            elif k in ('cancel', 'run_cancel'):
                can = e
        return ent, ret, rai, can

    mid = bool((spec.get('history') or {}).get('mid'))

    def poll(trace, reg, loop, nxt, final=False):
        state['polls'] += 1
        now = loop.time()
        if mid and not final and state['polls'] % 2 == 0:
            # read-only queries in the middle of the run, at a quiescent point
            from .jobs import inspect_everything
            inspect_everything(reg[top_id], reg, state['polls'] // 2)
            out.count('read-only API sweeps in the middle of a run')
        for vid, job in reg.items():
            if vid == top_id:
                continue
            ent, ret, rai, can = observed(trace, vid)
            try:
                idle, sch, runn, done = job.is_idle(), job.is_scheduled(), job.is_running(), job.is_done()
                exc = job.raised_exception()
            except BaseException as err:                # noqa
                out.violation('predicate-raised', "%s: inspection API raised %r" % (vid, err))
                continue
            out.count('job states polled')
            where = "%s at t=%s%s" % (vid, now, " (after the run)" if final else "")
            # ground truth for "scheduled": the loop's task factory saw a task
            # created for this job (task._job is the back-reference the library
            # installs itself right after creating the task)
            from .jobs import job_of_task
            owners = [job_of_task(t, reg) for t in loop.created_tasks]
            truly_scheduled = any(o is job for o in owners)
            have_backref = any(o is not None and o is not reg[top_id] for o in owners)
            if have_backref:
                out.count('is_scheduled() compared with task creation')
            if have_backref and (bool(sch) != truly_scheduled or bool(idle) == truly_scheduled):
                out.violation('scheduled-truth', "%s: is_scheduled()=%r is_idle()=%r but a task %s created for it"
                              % (where, sch, idle, "was" if truly_scheduled else "was never"))
            if truly_scheduled and not ent and not can and not final:
                out.count('jobs seen scheduled (task created) but not yet running')
            kindtag = 'nested scheduler' if hasattr(job, 'jobs') else \
                ('coroutine Job' if hasattr(job, 'corun') else 'AbstractJob subclass')
            if bool(done) != bool(ret or rai):
                out.violation('is_done', "%s: is_done()=%r but the body %s" % (
                    where, done, "returned/raised" if (ret or rai) else
                    ("was cancelled" if can else "has not finished")))
            if done and not runn:
                out.violation('implication', "%s: is_done() but not is_running()" % where)
            if runn and not sch:
                out.violation('implication', "%s: is_running() but not is_scheduled()" % where)
            if bool(idle) == bool(sch):
                out.violation('idle-vs-scheduled', "%s: is_idle()=%r is_scheduled()=%r" % (where, idle, sch))
            if ent and not (sch and runn):
                out.violation('running', "%s: body entered but is_scheduled()=%r is_running()=%r" % (where, sch, runn))
            if runn and not ent:
                out.violation('running-early', "%s: is_running() but the body was never entered "
                              "(waiting for a window slot is scheduled, not running)" % where)
            for name, val in (('is_idle', idle), ('is_scheduled', sch), ('is_running', runn), ('is_done', done)):
                if val is not True and val is not False:
                    out.violation('not-a-bool', "%s: %s() returned %r" % (where, name, val))
            if (ret or rai) and not hasattr(job, 'jobs'):
                # "a cancelled job is never reported done": the bodies of this
                # workload (and the library's PrintJob) always pass a cancellation
                # on; one that was interrupted by a cancel request and yet ends
                # normally in a LATER instant has had its cancellation swallowed
                # somewhere between the scheduler and the body
                end_ev = ret or rai
                creq = next((e for e in trace.events if e['who'] == vid and e['kind'] == 'task_cancel'), None)
                if creq is not None and ent and ent['seq'] < creq['seq'] < end_ev['seq'] and end_ev['t'] > creq['t']:
                    out.violation('done-after-cancel', "%s: cancel request at t=%s while the body was executing, yet "
                                  "the job ends normally at t=%s and is reported done=%r"
                                  % (where, creq['t'], end_ev['t'], done))
                elif creq is not None and ret and ent and getattr(job, 'spec', {}).get('print') \
                        and ent['seq'] < creq['seq'] < ret['seq'] and ret['t'] < ent['t'] + (job.spec.get('dur') or 0):
                    # the library's own PrintJob: its nominal end is known
                    out.violation('done-after-cancel', "%s: PrintJob entered at t=%s with sleep=%s was sent a cancel "
                                  "request at t=%s, ended at once and is reported done=%r"
                                  % (where, ent['t'], job.spec.get('dur'), creq['t'], done))
                elif creq is not None:
                    out.count('cancel requests in the instant of a normal end (tie)')
            if ret:
                try:
                    res = job.result()
                    if res is not ret['val']:
                        out.violation('result', "%s: result() is %r, the body returned %r" % (where, res, ret['val']))
                    out.count('result() identity checks')
                    if hasattr(job, 'jobs'):
                        # what the "body" of a nested scheduler returns is a verdict
                        out.count('verdicts read from finished nested schedulers')
                        if res is not True and res is not False:
                            out.violation('result', "%s: a nested scheduler is reported done with result() %r, "
                                          "which is no verdict%s" % (where, res, " (it had been sent a cancel request)"
                                                                     if can or any(e['kind'] == 'task_cancel' for e in
                                                                                   trace.events if e['who'] == vid) else ""))
                except BaseException as err:            # noqa
                    out.violation('result', "%s: result() raised %r after the body returned" % (where, err))
                if exc is not None:
                    out.violation('raised_exception', "%s: raised_exception()=%r after a normal return" % (where, exc))
            elif rai:
                out.count('raised_exception() identity checks')
                if exc is not rai['exc']:
                    out.violation('raised_exception', "%s: raised_exception() is %r, the body raised %r"
                                  % (where, exc, rai['exc']))
            else:
                if exc is not None:
                    out.violation('raised_exception', "%s: raised_exception()=%r though the body raised nothing"
                                  % (where, exc))
            cur = (sch, runn, done, not idle)
            p = prev.get(vid)
            if p is not None and any(x and not y for x, y in zip(p, cur)):
                out.violation('reverted', "%s: predicates (scheduled, running, done, not idle) went %r -> %r"
                              % (where, p, cur))
            prev[vid] = cur
            st = 'raised' if rai else 'done' if ret else 'cancelled' if can else 'running' if ent else \
                'queued' if sch else 'idle'
            out.count('%s seen %s' % (kindtag, st))
            if st in ('queued', 'cancelled'):
                out.nontrivial = True

    exe = execute(spec, loop_seed=loop_seed, quiescent=poll)
    if exe.terminated:
        poll(exe.trace, exe.reg, exe.loop, None, final=True)
    out.count('polls', state['polls'])
    hist = spec.get('history') or {}
    if hist.get('post') and exe.terminated:
        out.count('final readings taken after a read-only API sweep')
    if hist.get('pre'):
        out.count('runs preceded by inspections / neutral edit pairs')
    m = Model(exe)
    return Case(out, m.fingerprint(), len(exe.trace.events), dict(spec=spec, loop_seed=loop_seed),
                sample_of(spec, exe, 40), exe.loop.timer_ties)


# ------------------------------------------------------------------ C12 insertion / iteration order
def run_perm(prop, spec, loop_seed):
    """metamorphic pair for "the order in which jobs were added never changes
    when jobs run": the same unwindowed scenario with the jobs inserted in
    another order and every job set iterated in another order; domain: runs in
    which nothing aborts (no timeout, window, forever job or critical raiser),
    so that every job runs and its times are a function of the graph alone"""
    from .spec import permute_hashes
    out = Out('C12')
    a = copy.deepcopy(spec)
    a.pop('history', None)
    for n, p, d in walk(a):
        if is_sched(n):
            n['timeout'] = None
            n['window'] = None
            n['forever'] = False
        else:
            n['forever'] = False
            if n.get('dur', 0) is None:
                n['dur'] = 1
                n.pop('ticker', None)
            if n.get('outcome') == 'raise':
                n['critical'] = False
            if n.get('sdur', 0) is None:
                n['sdur'] = 0
    rng = random.Random(repr(loop_seed))
    b = permute_hashes(a, rng)
    b.pop('history', None)
    for n, p, d in walk(b):
        if is_sched(n):
            rng.shuffle(n['jobs'])
    ea = execute(a, loop_seed=loop_seed)
    eb = execute(b, loop_seed=None if loop_seed is None else loop_seed + 1)
    ma, mb = Model(ea), Model(eb)
    out.count('pairs of runs differing only in insertion / set-iteration order')
    if not (ea.terminated and eb.terminated):
        out.count('pairs with a run that did not terminate (left to C03)')
    else:
        for j in ma.node:
            if j == ma.top:
                continue
            sa = tuple(x and x['t'] for x in (ma.enter(j), ma.end(j)))
            sb = tuple(x and x['t'] for x in (mb.enter(j), mb.end(j)))
            out.count('job start/end instants compared across orders')
            if sa != sb:
                out.violation('order-dependent-times', "%s runs at (start, end)=%r, but at %r when jobs are inserted "
                              "and iterated in another order" % (j, sa, sb))
        if ea.verdict != eb.verdict and not (ea.verdict[0] == eb.verdict[0] == 'raise'):
            out.violation('order-dependent-verdict', "run(): %r vs %r" % (ea.verdict, eb.verdict))
        out.nontrivial = any(len(n.get('jobs', [])) >= 3 for n, p, d in walk(a) if is_sched(n))
    return Case(out, mb.fingerprint(), len(ea.trace.events) + len(eb.trace.events),
                dict(spec=spec, loop_seed=loop_seed, perm=True), sample_of(b, eb, 30), eb.loop.timer_ties)


RUNNERS = {'trace': run_trace, 'perm': run_perm, 'c06': run_c06, 'twin': run_twin, 'poll': run_poll}
