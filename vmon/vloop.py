"""
Virtual-time event loop (DESIGN.md 3.1).

A real asyncio.SelectorEventLoop - real Task, Future, Queue, wait, gather -
with exactly three substitutions:

1. time() is a virtual clock (time.time / time.monotonic are patched to the same
   clock by `patched_clock` for the duration of one execution);
2. the selector never blocks: a positive timeout jumps the clock to the
   earliest timer deadline, "nothing ready and no timer armed" raises Wedged,
   a horizon / an iteration cap raise Horizon;  a quiescence callback runs
   just before the clock advances;
3. timer handles with equal deadlines fire in insertion order (FIFO baseline)
   or in a seeded random order; call_soon order is never perturbed.

Tasks are created by a factory that reports creation / cancel request, and
that gives tasks a deterministic hash so that the iteration order of the sets
of tasks used by asyncio.wait and by the library is replayable.
"""
import asyncio
import contextlib
import heapq
import os
import random
import sys
import time as _time
from asyncio import events

# asyncio.timeout() and asyncio.TaskGroup cancel the task they are used in
_OWN_CANCELS = (os.path.join('asyncio', 'timeouts.py'), os.path.join('asyncio', 'taskgroups.py'))


class Wedged(Exception):
    """nothing is ready and no timer is armed: the loop would block forever"""


class Horizon(Exception):
    """virtual-time horizon or iteration cap exceeded"""


class VTimerHandle(events.TimerHandle):
    __slots__ = ('_tb',)

    def _key(self):
        return (self._when, self._tb)

    def __lt__(self, other):
        if isinstance(other, VTimerHandle):
            return self._key() < other._key()
        return NotImplemented

    def __le__(self, other):
        if isinstance(other, VTimerHandle):
            return self._key() <= other._key()
        return NotImplemented

    def __gt__(self, other):
        if isinstance(other, VTimerHandle):
            return self._key() > other._key()
        return NotImplemented

    def __ge__(self, other):
        if isinstance(other, VTimerHandle):
            return self._key() >= other._key()
        return NotImplemented

    def __eq__(self, other):
        return self is other

    __hash__ = events.TimerHandle.__hash__


class VTask(asyncio.Task):
    """reports cancel requests; deterministic hash"""

    def __init__(self, coro, *, loop=None, **kw):
        idx = len(loop.created_tasks)
        self._vindex = idx
        self._vhash = idx if loop.rng is None else loop.rng.getrandbits(20)
        super().__init__(coro, loop=loop, **kw)

    def __hash__(self):
        return self._vhash

    def __eq__(self, other):
        return self is other

    def __setattr__(self, name, value):
        # remember what the program under test attaches to its tasks, whatever
        # the attribute is called (the C Task type does not expose __dict__)
        super().__setattr__(name, value)
        if not name.startswith('_v'):
            try:
                attached = self._vattached
            except AttributeError:
                attached = []
                super().__setattr__('_vattached', attached)
            attached.append(value)

    def cancel(self, msg=None):
        ret = super().cancel(msg)
        if sys._getframe(1).f_code.co_filename.endswith(_OWN_CANCELS):
            # asyncio.timeout() used by the job itself, cancelling its own
            # task from inside: not a request made by anybody else
            return ret
        self._vext = getattr(self, '_vext', 0) + 1
        loop = self.get_loop()
        hook = getattr(loop, 'on_task_cancel', None)
        if hook is not None:
            try:
                hook(self, ret)
            except Exception as exc:                    # noqa  never disturb the program under test
                loop.hook_errors = getattr(loop, 'hook_errors', []) + [repr(exc)]
        return ret


class VLoop(asyncio.SelectorEventLoop):

    def __init__(self, seed=None, horizon=1e6, max_iter=2_000_000):
        super().__init__()
        self._vt = 0.0
        # None: FIFO among equal deadlines, deterministic task hashes by index
        self.rng = random.Random(seed) if seed is not None else None
        self._tcount = 0
        self.horizon = horizon
        self.max_iter = max_iter
        self.iterations = 0
        self.on_quiescent = None        # callable(loop, next_time | None)
        self.on_task_cancel = None      # callable(task, accepted)
        self.on_task_created = None     # callable(task)
        self.created_tasks = []
        self.clock_jumps = 0
        self.timer_ties = 0             # timers armed with a deadline already in the heap
        self._deadlines = {}
        self.handler_reports = []       # loop exception handler: diagnostics only
        orig_select = self._selector.select

        def select(timeout=None):
            self.iterations += 1
            if self.iterations > self.max_iter:
                raise Horizon("iteration cap %d exceeded at t=%s" % (self.max_iter, self._vt))
            if timeout is None:
                if self.on_quiescent is not None:
                    self.on_quiescent(self, None)
                raise Wedged("nothing ready and no timer armed at t=%s" % self._vt)
            if timeout > 0:
                when = self._scheduled[0]._when
                if self.on_quiescent is not None:
                    self.on_quiescent(self, when)
                if when > self._vt:
                    self._vt = when
                    self.clock_jumps += 1
                if self._vt > self.horizon:
                    raise Horizon("virtual-time horizon %s exceeded" % self.horizon)
            return orig_select(0)
        self._selector.select = select
        self.set_task_factory(self._factory)
        self.set_exception_handler(self._on_exception)

    def _on_exception(self, loop, context):
        self.handler_reports.append(str(context.get('message')))

    def _factory(self, loop, coro, **kw):
        task = VTask(coro, loop=loop, **kw)
        self.created_tasks.append(task)
        if self.on_task_created is not None:
            self.on_task_created(task)
        return task

    def time(self):
        return self._vt

    def call_at(self, when, callback, *args, context=None):
        self._check_closed()
        timer = VTimerHandle(when, callback, args, self, context)
        self._tcount += 1
        timer._tb = self._tcount if self.rng is None else self.rng.random()
        n = self._deadlines.get(when, 0)
        if n:
            self.timer_ties += 1
        self._deadlines[when] = n + 1
        heapq.heappush(self._scheduled, timer)
        timer._scheduled = True
        return timer


@contextlib.contextmanager
def patched_clock(loop):
    """time.time() and time.monotonic() read the loop's virtual clock"""
    real_time, real_mono = _time.time, _time.monotonic
    _time.time = loop.time
    _time.monotonic = loop.time
    try:
        yield
    finally:
        _time.time, _time.monotonic = real_time, real_mono
