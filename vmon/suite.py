"""
One more workload: the repository's own test-suite, run once with the live
monitors of vmon/live.py attached (real event loop, real clock).  Test
outcomes are ignored (some tests assert wall-clock durations and are flaky on
a loaded machine): only what the monitors observed counts.
"""
import json
import os
import shutil
import subprocess
import sys
import tempfile

from . import REPO, VERIF
from .monitors import Out
from .runners import Case


def run_suite_case(prop, key, index, tier):
    out = Out(prop)
    tmp = tempfile.mkdtemp(prefix='vmon-suite-')
    try:
        shutil.copytree(os.path.join(REPO, 'tests'), os.path.join(tmp, 'tests'),
                        ignore=shutil.ignore_patterns('__pycache__', '*.dot', '*.svg', '*.png'))
        report = os.path.join(tmp, 'report.json')
        env = dict(os.environ, VMON_LIVE_REPORT=report, PYTHONPATH=VERIF + os.pathsep + REPO, VERIF_REPO=REPO)
        proc = subprocess.run([sys.executable, '-B', '-m', 'pytest', '-p', 'vmon.pytest_live', '-q',
                               '-p', 'no:cacheprovider', '-p', 'no:xdist', '--timeout=300', 'tests'],
                              cwd=tmp, env=env, capture_output=True, text=True, timeout=1200)
        if not os.path.exists(report):
            raise RuntimeError("the suite produced no monitor report: %s" % (proc.stdout + proc.stderr)[-800:])
        rep = json.load(open(report))
    finally:
        shutil.rmtree(tmp, ignore_errors=True)
    prefix = prop + ': '
    n = 0
    for k, v in rep['counters'].items():
        if k.startswith(prefix):
            out.count("repository test-suite under live monitors: " + k[len(prefix):], v)
            n += v
        elif k.startswith('harness'):
            out.count("repository test-suite: " + k, v)
    out.count('repository test-suite runs with live monitors attached')
    out.count('repository test-suite: monitor evaluations', n)
    for v in rep['violations']:
        if v['property'] == prop:
            out.violation('suite:' + v['clause'], "while the repository's own tests ran: " + v['message'])
    out.nontrivial = n > 0
    tail = [l for l in proc.stdout.splitlines() if 'passed' in l or 'failed' in l][-1:]
    sample = dict(workload="repository test-suite with live monitors", pytest_summary=tail,
                  events=rep['events'], counters={k: v for k, v in rep['counters'].items() if k.startswith(prefix)})
    return Case(out, 'suite:%s' % prop, rep['events'], dict(case='suite', key=key, index=index, tier=tier), sample)
