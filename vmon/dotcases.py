"""
C20: DOT export and listing describe the scheduler tree faithfully.

Primary oracle: the independent parser in dotparse.py plus structural
comparison with the tree that was built; second opinion: the `dot` binary
(when present) must accept the text.  Labels are never compared through dot.
"""
import contextlib
import io
import itertools
import random
import shutil
import subprocess

from .monitors import Out
from . import dotparse
from .synccases import N, S, P, CASES, finish, random_digraph
from asynciojobs import Scheduler as _Sched

ALPHABET = ['a', 'b', 'Z', '0', '"', '""', '\n', ' ', '{', '}', '[', ']', ';', '->', '--', 'é', '√', '<', '>', '=',
            ',', '#', '//', '/*', '*/', '%', '&', '|', "'", 'label', '\t', '日本', ':', '.', 'digraph', 'subgraph',
            'node', 'edge', '(', ')', '@', '$', '?', '!', '+', '_']
ALPHABET_ONE_LINE = [c for c in ALPHABET if '\n' not in c]

DOT = shutil.which('dot')
# graphviz's own parser without the layout pass (`dot -Tcanon` lays the graph
# out first, which takes minutes on trees of 100+ jobs)
NOP = shutil.which('nop')


def rlabel(rng, alphabet):
    r = rng.random()
    if r < 0.04:
        return rng.choice([0, 7, 42, -1, 3.5])          # labels need not be strings
    if r < 0.08:
        return rng.choice(['NOLABEL', 'label', 'None', '??', '0'])
    return ''.join(rng.choice(alphabet) for _ in range(rng.randint(0, 7)))


def build_tree(rng, alphabet, p_empty=0.15, maxdepth=3, wide=False):
    counter = itertools.count()
    info = dict(atoms=[], nested=[], parent={}, label={}, empties=[])

    def mk(depth):
        if depth and rng.random() < p_empty:
            n = 0
        else:
            n = rng.randint(1, 5) if depth == 0 else rng.randint(1, 4)
            if wide and depth == 0:
                n = rng.choice([10, 11, 30, 99, 100, 101, 120])     # ids change width at 10 and 100
        members = []
        for _ in range(n):
            if depth < maxdepth - 1 and rng.random() < 0.3:
                members.append(mk(depth + 1))
            else:
                nm = "n%d" % next(counter)
                lbl = rlabel(rng, alphabet) if rng.random() < 0.85 else nm
                a = N(nm, rng.randrange(64), label=lbl, critical=rng.random() < 0.5, forever=rng.random() < 0.25)
                if rng.random() < 0.05:
                    a.label = None                       # no label at all: documented fallback text
                    lbl = 'NOLABEL'
                info['atoms'].append(a)
                info['label'][a] = lbl
                members.append(a)
        base = random_digraph(rng, len(members), False) if members else {}
        for x, ys in base.items():
            for y in ys:
                members[x].requires(members[y])
        rng.shuffle(members)
        if depth == 0:
            toplabel = rng.choice(['top', 'top', rlabel(rng, alphabet), rng.choice(['graph', 'Node', 'strict', 'subgraph',
                                                                                    'edge', 'digraph', '0', 'a b'])])
            s = P(*members) if rng.random() < 0.3 else S("TOP", 0, *members, label=toplabel)
            s.verbose = rng.random() < 0.2
        else:
            nm = "S%d" % next(counter)
            lbl = rlabel(rng, alphabet) if rng.random() < 0.85 else nm
            s = S(nm, rng.randrange(64), *members, label=lbl, critical=rng.random() < 0.5,
                  forever=rng.random() < 0.25, verbose=rng.random() < 0.2)
            info['nested'].append(s)
            info['label'][s] = lbl
            if not members:
                info['empties'].append(s)
        for mmb in members:
            info['parent'][mmb] = s
        return s
    top = mk(0)
    info['top'] = top
    return top, info


def subtree_atoms(s):
    out = []
    for j in s.jobs:
        if isinstance(j, _Sched):
            out += subtree_atoms(j)
        else:
            out.append(j)
    return out


def subtree_scheds(s):
    out = []
    for j in s.jobs:
        if isinstance(j, _Sched):
            out.append(j)
            out += subtree_scheds(j)
    return out


def contains_empty(s):
    """s is empty or contains an empty scheduler at some depth"""
    if not s.jobs:
        return True
    return any(isinstance(j, S) and contains_empty(j) for j in s.jobs)


def endpoint_may_resolve_to_empty(info):
    """the mechanism of the known finding: some requirement has, as one of its
    endpoints, a nested scheduler that is empty or holds an empty scheduler"""
    for j in info['atoms'] + info['nested']:
        for r in j.required:
            if isinstance(r, S) and contains_empty(r):
                return True
            if isinstance(j, S) and contains_empty(j):
                return True
    return False


def check_dot(out, top, info, text):
    try:
        g = dotparse.parse(text)
    except dotparse.DotSyntaxError as exc:
        out.violation('dot-syntax', "dot_format() is not valid DOT: %s" % exc)
        return
    out.count('outputs parsed completely')
    atoms, nested = info['atoms'], info['nested']
    ids = {j: j.repr_id() for j in atoms + nested}
    if len(set(ids.values())) != len(ids) or any(v == '??' for v in ids.values()):
        out.violation('ids-not-unique', "tree-wide ids are not unique: %s" % sorted(ids.values()))
        return
    by_id = {v: k for k, v in ids.items()}
    # clusters <-> nested schedulers, same nesting
    subs = g.all_subgraphs()
    names = [s.name for s in subs]
    if len(names) != len(set(names)):
        out.violation('cluster-duplicate', "a cluster appears twice: %s" % names)
    want_clusters = {"cluster_" + ids[s]: s for s in nested}
    if set(names) != set(want_clusters):
        out.violation('clusters', "clusters %s, nested schedulers %s" % (sorted(names), sorted(want_clusters)))
        return
    out.count('clusters matched with nested schedulers', len(subs))
    cluster_graph = {s.name: s for s in subs}

    def effective(sub):
        """DOT semantics: a subgraph starts with a copy of the graph attributes
        of the enclosing (sub)graph; what it does not set itself is inherited"""
        chain = []
        x = sub
        while x is not None:
            chain.append(x)
            x = x.parent
        attrs = {}
        for x in reversed(chain):
            attrs.update(x.attrs)
        return attrs
    for sub in subs:
        sched = want_clusters[sub.name]
        parent = info['parent'][sched]
        expected_parent = None if parent is top else "cluster_" + ids[parent]
        got_parent = sub.parent.name if sub.parent is not g else None
        if got_parent != expected_parent:
            out.violation('cluster-nesting', "cluster %s sits in %s, its scheduler sits in %s"
                          % (sub.name, got_parent, expected_parent))
        eff = effective(sub)
        if eff != sub.attrs:
            out.count('clusters whose effective attributes include inherited ones')
        _check_style(out, eff, sched, info, is_sched=True, inherited=set(eff) - set(sub.attrs))
    # nodes <-> atoms
    placed = {}

    def walk(graph, owner):
        for nid, attrs in graph.nodes:
            placed.setdefault(nid, []).append((owner, attrs))
        for sub in graph.subgraphs:
            walk(sub, sub.name)
    walk(g, None)
    for j in atoms:
        decl = placed.get(ids[j], [])
        if len(decl) != 1:
            out.violation('node-count', "atomic job %s (id %s) is declared %d time(s)" % (j, ids[j], len(decl)))
            continue
        owner, attrs = decl[0]
        parent = info['parent'][j]
        expected_owner = None if parent is top else "cluster_" + ids[parent]
        if owner != expected_owner:
            out.violation('node-placement', "node %s is declared in %s, its job sits in %s"
                          % (ids[j], owner, expected_owner))
        _check_style(out, attrs, j, info, is_sched=False)
        out.count('nodes matched with atomic jobs')
    for nid, decls in placed.items():
        if nid not in by_id or by_id[nid] not in atoms:
            for owner, attrs in decls:
                sched = want_clusters.get(owner)
                if sched is None or sched.jobs:
                    out.violation('foreign-node', "node %r in %s belongs to no job" % (nid, owner))
                else:
                    out.count('placeholder nodes inside the cluster of an empty scheduler')
    # edges <-> requirements, one to one
    want = []
    for j in atoms + nested:
        for r in j.required:
            want.append((r, j))
    got = []
    for tail, head, attrs in g.all_edges():
        extra = set(attrs) - {'ltail', 'lhead'}
        if extra:
            out.violation('edge-attributes', "edge %s -> %s carries unexpected attributes %s" % (tail, head, sorted(extra)))
        ends = []
        for nid, key in ((tail, 'ltail'), (head, 'lhead')):
            if key in attrs:
                sched = want_clusters.get(attrs[key])
                if sched is None:
                    out.violation('edge-cluster', "edge %s -> %s: %s=%s names no cluster" % (tail, head, key, attrs[key]))
                    ends.append(None)
                    continue
                inside = {ids[a] for a in subtree_atoms(sched)}
                if nid not in inside:
                    # otherwise: a placeholder node declared inside this cluster,
                    # in the cluster of an empty scheduler (itself or a nested one)
                    holders = [sched] + [x for x in subtree_scheds(sched)]
                    ok = any(not h.jobs and any(owner == "cluster_" + ids[h] for owner, _ in placed.get(nid, []))
                             for h in holders)
                    if not ok:
                        out.violation('edge-anchor', "edge %s -> %s: %s=%s but node %s is not inside that cluster"
                                      % (tail, head, key, attrs[key], nid))
                    else:
                        out.count('cluster edges anchored on the placeholder of an empty scheduler')
                ends.append(sched)
            else:
                job = by_id.get(nid)
                if job is None or job not in atoms:
                    out.violation('edge-endpoint', "edge %s -> %s: %s is not the node of an atomic job" % (tail, head, nid))
                    ends.append(None)
                else:
                    ends.append(job)
        got.append(tuple(ends))
    out.count('edges matched with requirements', len(got))
    wc, gc = _multiset(want), _multiset(got)
    if wc != gc:
        missing = [(str(a), str(b)) for (a, b), k in wc.items() if gc.get((a, b), 0) < k]
        surplus = [(str(a), str(b)) for (a, b), k in gc.items() if wc.get((a, b), 0) < k]
        out.violation('edges', "requirements without their edge (required, requirer): %s; edges without requirement: %s"
                      % (missing, surplus))
    kinds = set()
    for r, j in want:
        kinds.add(('S' if isinstance(r, _Sched) else 'a') + '->' + ('S' if isinstance(j, _Sched) else 'a'))
    for k in kinds:
        out.count('outputs with %s requirement edges' % k)
    if 'compound' not in g.plain and any(isinstance(r, _Sched) or isinstance(j, _Sched) for r, j in want):
        out.violation('compound', "cluster edges are used but compound=true is missing")


def _multiset(pairs):
    d = {}
    for p in pairs:
        d[p] = d.get(p, 0) + 1
    return d


def _check_style(out, attrs, job, info, is_sched, inherited=()):
    out.count('style/label attribute sets checked')
    want_label = "%s: %s" % (job.repr_id(), info['label'][job])
    got = attrs.get('label')
    if got != want_label:
        out.violation('label', "label of %s is %r after unquoting, expected %r" % (job.name, got, want_label))
    if any(c in str(info['label'][job]) for c in '"\n{}[];#<>'):
        out.count('labels with quotes / newlines / DOT punctuation compared')
    style = [s for s in attrs.get('style', '').split(',') if s]
    if ('dashed' in style) != bool(job.forever):
        out.violation('style-forever', "%s: forever=%s but style=%r" % (job.name, job.forever, attrs.get('style')))
    if ('rounded' in style) != (not is_sched):
        out.violation('style-rounded', "%s: %s but style=%r" % (job.name, 'scheduler' if is_sched else 'atomic job',
                                                               attrs.get('style')))
    if job.critical:
        if attrs.get('color') != 'red' or attrs.get('penwidth') != '2':
            out.violation('style-critical', "%s is critical but color=%r penwidth=%r"
                          % (job.name, attrs.get('color'), attrs.get('penwidth')))
    else:
        if attrs.get('color', 'black') != 'black' or attrs.get('penwidth') != '0.5':
            out.key = 'dot-cluster-inherits-color' if 'color' in inherited else None
            out.violation('style-critical', "%s is not critical but is rendered with color=%r%s penwidth=%r"
                          % (job.name, attrs.get('color'),
                             " (inherited from the enclosing cluster)" if 'color' in inherited else "",
                             attrs.get('penwidth')))
    if attrs.get('shape') != 'box':
        out.violation('style-shape', "%s: shape=%r" % (job.name, attrs.get('shape')))


def check_with_dot_binary(out, text):
    if DOT is None and NOP is None:
        out.count('dot binary absent (second opinion skipped)')
        return
    cmd = [NOP] if NOP else [DOT, '-Tcanon']
    if NOP is None and text.count('\n') > 120:
        out.count('tree too large for a layout pass (second opinion skipped)')
        return
    try:
        r = subprocess.run(cmd, input=text.encode('utf-8'), capture_output=True, timeout=60)
    except subprocess.TimeoutExpired:
        out.count('dot binary timed out (second opinion skipped)')
        return
    out.count('outputs accepted by the dot binary' if r.returncode == 0 else 'outputs refused by the dot binary')
    if r.returncode != 0:
        out.violation('dot-binary-refuses', "%s exits %d: %s" % (' '.join(cmd), r.returncode,
                                                                   r.stderr.decode(errors='replace')[:300]))


def check_list(out, top, info):
    buf = io.StringIO()
    try:
        with contextlib.redirect_stdout(buf):
            top.list()
    except BaseException as exc:                        # noqa
        out.violation('list-raised', "list() raised %r" % (exc,))
        return
    out.count('list() outputs checked')
    lines = [ln for ln in buf.getvalue().split('\n') if ln.strip()]
    jobs = info['atoms'] + info['nested']
    ids = {j: j.repr_id() for j in jobs}
    heads = {}
    for ln in lines:
        toks = ln.split()
        if len(toks) >= 2 and toks[1] == '--end--':
            continue
        heads.setdefault(toks[0], []).append(ln)
    for j in jobs:
        got = heads.get(ids[j], [])
        if len(got) != 1:
            out.violation('list-count', "list() shows %s (id %s) %d time(s)" % (j.name, ids[j], len(got)))
            continue
        want = "<%s `%s`>" % (type(j).__name__, info['label'][j])
        if want not in got[0]:
            out.violation('list-label', "list() line for %s is %r, expected it to contain %r" % (j.name, got[0], want))
    if len(heads) != len(jobs):
        extra = set(heads) - set(ids.values())
        if extra:
            out.violation('list-extra', "list() shows lines for unknown ids %s" % sorted(extra))
    # "prints a complete list of jobs in topological order": the lines come in
    # that order too - a job after what it requires, the members of a nested
    # scheduler between its opening and closing lines
    pos, closing = {}, {}
    for k, ln in enumerate(lines):
        toks = ln.split()
        if len(toks) >= 2 and toks[1] == '--end--':
            closing[toks[0]] = k
        else:
            pos.setdefault(toks[0], k)
    for j in jobs:
        if ids[j] not in pos:
            continue
        for r in j.required:
            if ids[r] in pos:
                out.count('list() line positions compared along requirements')
                if pos[ids[r]] >= pos[ids[j]]:
                    out.violation('list-line-order', "list() prints %s (id %s, line %d) before %s (id %s, line %d) "
                                  "which it requires" % (j.name, ids[j], pos[ids[j]], r.name, ids[r], pos[ids[r]]))
        parent = info['parent'][j]
        if parent is not info['top'] and ids[parent] in pos:
            lo, hi = pos[ids[parent]], closing.get(ids[parent])
            if not (lo < pos[ids[j]] and (hi is None or pos[ids[j]] < hi)):
                out.violation('list-line-nesting', "list() prints %s (id %s) at line %d, outside the lines %s..%s of its "
                              "scheduler %s" % (j.name, ids[j], pos[ids[j]], lo, hi, parent.name))
    for j in jobs:
        for r in j.required:
            if int(ids[r]) >= int(ids[j]):
                out.violation('list-order', "%s (id %s) requires %s (id %s)" % (j.name, ids[j], r.name, ids[r]))
        parent = info['parent'][j]
        if parent is not info['top'] and int(ids[parent]) >= int(ids[j]):
            out.violation('list-nesting-order', "%s (id %s) sits in %s (id %s)" % (j.name, ids[j], parent.name, ids[parent]))


def c20_tree(prop, key, index, tier):
    out = Out(prop)
    rng = random.Random(key)
    one_line = index % 3 == 0
    wide = index % 40 == 7
    top, info = build_tree(rng, ALPHABET_ONE_LINE if one_line else ALPHABET, wide=wide)
    out.count('trees exported')
    total = len(info['atoms']) + len(info['nested'])
    if total >= 100:
        out.count('trees with 100 jobs or more (3-digit ids)')
    elif total >= 10:
        out.count('trees with 10-99 jobs (2-digit ids)')
    if index % 2 == 1 and len(info['atoms']) >= 2:
        # history: the tree is exported / listed once while some of its jobs
        # are still missing, then completed; the final export must describe
        # the final tree (nothing remembered from the earlier numbering)
        held = rng.sample(info['atoms'], rng.randint(1, max(1, len(info['atoms']) // 2)))
        saved = []
        for a in held:
            parent = info['parent'][a]
            requirers = [j for j in parent.jobs if a in j.required]
            saved.append((a, parent, set(a.required), requirers))
        for a, parent, reqs, requirers in saved:
            parent.remove(a)
            for j in requirers:
                j.required.discard(a)
            a.required.clear()
        buf = io.StringIO()
        try:
            with contextlib.redirect_stdout(buf):
                top.dot_format()
                top.list()
        except ValueError:
            pass                                        # D7 on the partial tree: not what is judged here
        for a, parent, reqs, requirers in saved:
            parent.add(a)
        for a, parent, reqs, requirers in saved:
            a.required.update(reqs)
            for j in requirers:
                j.required.add(a)
        out.count('trees exported once before being completed (history)')
    if index % 5 == 2 and len(info['atoms']) >= 3:
        # history: the complete tree is listed / queried / exported (reverse
        # links and numbering get computed at every level), then some jobs -
        # preferably exit jobs of their scheduler - leave for good; the export
        # must describe the tree as it is now
        buf = io.StringIO()
        try:
            with contextlib.redirect_stdout(buf):
                if rng.random() < 0.6:
                    top.list()
                if rng.random() < 0.5:
                    top.dot_format()
                for s_ in [top] + info['nested']:
                    if rng.random() < 0.5:
                        list(s_.exit_jobs())
                    if s_.jobs and rng.random() < 0.3:
                        s_.successors_downstream(next(iter(s_.jobs)))
        except ValueError:
            pass                                        # judged on the final export, below
        except BaseException as exc:                    # noqa
            out.violation('dot-raised', "while querying the complete tree: %r" % (exc,))
        for _ in range(rng.randint(1, 3)):
            if len(info['atoms']) < 2:
                break
            exits = [a for a in info['atoms'] if not any(a in j.required for j in info['parent'][a].jobs)]
            a = rng.choice(exits) if exits and rng.random() < 0.7 else rng.choice(info['atoms'])
            parent = info['parent'][a]
            if rng.random() < 0.5:
                parent.bypass_and_remove(a)
            else:
                for j in parent.jobs:
                    j.required.discard(a)
                parent.remove(a)
                a.required.clear()
            info['atoms'].remove(a)
            del info['parent'][a]
            if not parent.jobs and parent is not top and parent not in info['empties']:
                info['empties'].append(parent)
        out.count('trees pruned after having been queried (history)')
    if index % 5 == 4 and info['nested'] and len(info['atoms']) >= 2:
        # history: some schedulers of the tree are scanned on their own, an
        # uneven number of times (check_cycles() / topological_order() of a
        # PureScheduler do not recurse), then jobs move from one scheduler of the
        # tree to another
        allscheds = [top] + info['nested']
        try:
            for _ in range(rng.randint(1, 4)):
                s_ = rng.choice(allscheds)
                if rng.random() < 0.5:
                    s_.check_cycles()
                else:
                    list(s_.topological_order())
        except BaseException as exc:                    # noqa
            out.violation('dot-raised', "while scanning parts of the tree: %r" % (exc,))
        for _ in range(rng.randint(1, 2)):
            a = rng.choice(info['atoms'])
            src = info['parent'][a]
            dst = rng.choice([s_ for s_ in allscheds if s_ is not src])
            for j in src.jobs:
                j.required.discard(a)
            src.remove(a)
            a.required.clear()
            if dst.jobs and rng.random() < 0.6:
                a.requires(rng.choice(sorted(dst.jobs, key=lambda j: j.name)))
            dst.add(a)
            info['parent'][a] = dst
            if not src.jobs and src is not top and src not in info['empties']:
                info['empties'].append(src)
            if dst in info['empties']:
                info['empties'].remove(dst)
        out.count('trees in which jobs moved between schedulers after partial scans (history)')
    if info['empties']:
        out.count('trees with an empty nested scheduler')
    try:
        text = top.dot_format()
    except ValueError as exc:
        if str(exc) in ('no entry found', 'no exit found') and endpoint_may_resolve_to_empty(info):
            out.key = 'dot-empty-scheduler-endpoint'
            out.violation('dot-raised', "dot_format() raised %r: a requirement has an empty nested scheduler "
                          "(or one holding only empty schedulers on its entry/exit side) as endpoint" % (exc,))
        else:
            out.violation('dot-raised', "dot_format() raised %r" % (exc,))
        text = None
    except BaseException as exc:                        # noqa
        out.violation('dot-raised', "dot_format() raised %r" % (exc,))
        text = None
    if text is not None:
        check_dot(out, top, info, text)
        if index % 8 == 0 or tier == 'thorough' and index % 3 == 0:
            check_with_dot_binary(out, text)
        if info['empties'] and any(True for j in info['atoms'] + info['nested'] for r in j.required
                                   if r in info['empties'] or j in info['empties']):
            out.count('empty nested schedulers with requirements exported')
    if one_line:
        check_list(out, top, info)
    out.nontrivial = bool(info['nested'])
    sample = dict(atoms=len(info['atoms']), nested=len(info['nested']), empties=len(info['empties']),
                  labels=[info['label'][j] for j in (info['atoms'] + info['nested'])[:6]],
                  dot=(text or '')[:600])
    return finish(prop, out, key, index, tier, 'c20_tree', (key,), sample)


def c20_large(prop, key, index, tier):
    """a nested scheduler holding a path-rich DAG of 40-150 jobs, required by a
    sibling and requiring another (so that its entry and exit are looked up),
    exported under a budget of logical steps far above what the export needs:
    DOT that never comes describes nothing"""
    from .synccases import large_dag, line_budget, BudgetExceeded
    out = Out(prop)
    rng = random.Random(key)
    kind, base = large_dag(rng)
    info = dict(atoms=[], nested=[], parent={}, label={}, empties=[])
    inner = {}
    for i in base:
        inner[i] = N("n%d" % i, rng.randrange(256), critical=rng.random() < 0.5, forever=False)
    for a, bs in base.items():
        for b in bs:
            inner[a].requires(inner[b])
    nest = S("NEST", 1, *inner.values(), label="NEST")
    first, last = N("first", 2), N("last", 3, required=nest)
    nest.requires(first)
    top = S("TOP", 0, first, nest, last, label="top") if rng.random() < 0.7 else P(first, nest, last)
    for j in list(inner.values()) + [first, last]:
        info['atoms'].append(j)
        info['label'][j] = j.name
    for j in inner.values():
        info['parent'][j] = nest
    for j in (first, nest, last):
        info['parent'][j] = top
    info['nested'].append(nest)
    info['label'][nest] = "NEST"
    info['top'] = top
    out.count('large nested DAGs exported (%s)' % kind)
    text = None
    try:
        with line_budget(8_000_000) as spent:
            text = top.dot_format()
        out.count('exports done under a budget of logical steps')
        out.count('  ... library lines executed', spent[0])
    except BudgetExceeded as exc:
        out.violation('dot-no-answer', "dot_format() of a tree with a nested %s DAG of %d jobs gave no answer: %s"
                      % (kind, len(base), exc))
    except BaseException as exc:                        # noqa
        out.violation('dot-raised', "dot_format() raised %r" % (exc,))
    if text is not None:
        check_dot(out, top, info, text)
    try:
        with line_budget(8_000_000):
            check_list(out, top, info)
    except BudgetExceeded as exc:
        out.violation('list-no-answer', "list() gave no answer: %s" % exc)
    out.nontrivial = True
    return finish(prop, out, key, index, tier, 'c20_large', (key,), dict(kind=kind, jobs=len(base)))


CASES['c20_tree'] = c20_tree
CASES['c20_large'] = c20_large
