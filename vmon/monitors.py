"""
Offline trace monitors for C01-C05, C07-C13 (DESIGN.md section 4).

Each monitor is a function (model, out) that replays the recorded event log of
one execution.  `out.violation(clause, message)` records a refutation,
`out.count(key)` counts how often a clause was actually evaluated on a
non-vacuous instance (a campaign whose deciding clauses were never evaluated
is INCONCLUSIVE, not "held").

Tie policy: events carrying the same virtual time may be seen by a scheduler
in either order; oracles compare virtual times with < / == and accept every
outcome consistent with some ordering of the events tied at one instant.
"""
import collections

from .model import START, END, END_OK, END_KO, BODYEND


class Out:
    def __init__(self, prop):
        self.prop = prop
        self.violations = []
        self.counters = collections.Counter()
        self.nontrivial = False
        self.tags = set()

    def violation(self, clause, message):
        self.violations.append((clause, message))

    def count(self, key, n=1):
        self.counters[key] += n

    def tag(self, *tags):
        self.tags.update(tags)


# ------------------------------------------------------------------ C01
def mon_c01(m, out):
    exe = m.exe
    if exe.required_before != exe.required_after:
        out.violation('requirements-rewritten',
                      "the run changed the requirement sets: %r -> %r"
                      % (exe.required_before, exe.required_after))
    for j in m.node:
        if j == m.top:
            continue
        for en in m.enters(j):
            out.count('starts')
            reqs = m.req[j]
            ends = []
            for r in reqs:
                e = m.end(r)
                out.count('start-vs-requirement pairs')
                if e is None or e['seq'] > en['seq']:
                    out.violation('start-before-requirement-end',
                                  "%s entered (seq %d, t=%s) before its requirement %s ended (%s)"
                                  % (j, en['seq'], en['t'], r,
                                     "never" if e is None else "seq %d t=%s" % (e['seq'], e['t'])))
                else:
                    ends.append(e)
            p = m.parent[j]
            pe = m.enter(p)
            if pe is None or pe['seq'] > en['seq']:
                out.violation('start-before-own-scheduler',
                              "%s entered before its scheduler %s began its run" % (j, p))
            elif m.depth[j] >= 2:
                out.count('nested-job starts after nested run began')
                # everything the nested scheduler itself requires has finished
                for r in m.req[p]:
                    e = m.end(r)
                    out.count('nested-job start vs scheduler requirement')
                    if e is None or e['seq'] > en['seq']:
                        out.violation('nested-start-before-scheduler-requirement',
                                      "%s (inside %s) entered before %s, required by %s, ended"
                                      % (j, p, r, p))
            # non-trivial: the cases that separate ALL from ANY
            if len(ends) >= 2 and len({e['t'] for e in ends}) >= 2:
                out.count('joins with requirements ending at distinct instants')
                out.nontrivial = True
            if len(ends) >= 2 and len({e['t'] for e in ends}) == 1 and len({e['it'] for e in ends}) >= 2:
                out.count('joins with requirements ending in the same instant, different iterations')
                out.nontrivial = True
            if any(m.is_sched[r] for r in reqs):
                out.count('starts requiring a nested scheduler')
                out.nontrivial = True
                # "finished means that the nested scheduler's whole run is over":
                # nothing inside it may still be executing
                for r in reqs:
                    if m.is_sched[r]:
                        for inner in m.subtree_all(r):
                            ien, ibe = m.enter(inner), m.body_end(inner)
                            out.count('jobs inside a required nested scheduler checked to be over')
                            if ien is not None and ien['seq'] < en['seq'] and (ibe is None or ibe['seq'] > en['seq']):
                                out.violation('start-before-nested-run-over',
                                              "%s entered (t=%s) although %s, inside its requirement %s, was still executing"
                                              % (j, en['t'], inner, r))
            if any(e['kind'] in END_KO for e in ends):
                out.count('starts requiring a job that raised')
                out.nontrivial = True
            if m.is_sched[j] and reqs:
                out.count('nested scheduler starts with requirements')


# ------------------------------------------------------------------ C02
def mon_c02(m, out):
    for j in m.node:
        n = len(m.enters(j))
        if n:
            out.count('jobs whose entries were counted')
        if n > 1:
            out.violation('entered-twice', "%s was entered %d times in one run" % (j, n))
    for s in m.scheds():
        a = m.run(s)
        if a is None or a.rend is None:
            continue
        rend = a.rend
        if rend['kind'] == 'run_return' and rend.get('val') is True:
            out.count('successful scheduler runs checked')
            for j in a.nonf:
                out.count('non-forever jobs of successful runs')
                ens = [e for e in m.enters(j) if e['seq'] < rend['seq']]
                e = m.first(j, END, before=rend['seq'])
                if len(ens) != 1 or e is None:
                    out.violation('success-without-job',
                                  "%s reported success (seq %d) but its non-forever job %s had %d start(s) and %s"
                                  % (s, rend['seq'], j, len(ens),
                                     "no end" if e is None else "an end"))
                elif e['kind'] in END_KO:
                    # "ran to its own end (returned, or raised while non-critical)"
                    if m.critical(j):
                        out.violation('success-with-critical-raise',
                                      "%s reported success (seq %d) although its critical non-forever job %s "
                                      "raised %r at t=%s" % (s, rend['seq'], j, e.get('exc'), e['t']))
                    else:
                        out.count('non-critical raises inside successful runs')
            if a.nonf:
                out.nontrivial = True
    # tie statistics: joins whose requirements completed in the same loop iteration
    for j in m.node:
        reqs = m.req[j]
        if len(reqs) >= 2:
            ends = [m.end(r) for r in reqs]
            if all(e is not None for e in ends):
                if len({(e['t']) for e in ends}) == 1:
                    out.count('joins whose requirements ended in one instant')
                    gaps = sorted(e['it'] for e in ends)
                    out.count('  ... %d iterations apart' % min(gaps[-1] - gaps[0], 4))
                    out.tag('tie-join')
    for s in m.scheds():
        a = m.run(s)
        if a and a.all_ended and a.ended_ok:
            fends = [m.end(j) for j in a.dj if m.forever(j)]
            if any(e is not None and e['t'] == a.t_all for e in fends):
                out.count('forever job ending in the same instant as the last regular job')


# ------------------------------------------------------------------ C03
def mon_c03(m, out):
    v = m.exe.verdict
    out.count('runs judged')
    if v[0] in ('wedged', 'horizon'):
        out.violation('no-progress', "run() did not terminate: %s: %s" % v)
    else:
        out.count('runs that terminated')
    for s in m.scheds():
        n = m.node[s]
        if n.get('window') and any(m.raised(j) for j in m.direct(s)):
            out.count('windowed schedulers with a raising job')
            out.nontrivial = True
        if n.get('timeout') is not None and any(
                (not m.is_sched[j]) and m.node[j].get('dur', 0) is None and not m.forever(j)
                for j in m.direct(s)):
            out.count('schedulers with timeout holding a never-ending non-forever job')
            out.nontrivial = True
    if any(m.raised(j) for j in m.node):
        out.nontrivial = True


# ------------------------------------------------------------------ C04
def diagnosis(rend):
    ft, fc, why = rend.get('ft'), rend.get('fc'), rend.get('why')
    return ft, fc, why


def mon_c04(m, out):
    for s in m.scheds():
        a = m.run(s)
        if a is None or a.rend is None or a.rend['kind'] == 'run_cancel':
            continue
        rend = a.rend
        ft, fc, why = diagnosis(rend)
        crit_s = m.critical(s) and not (s == m.top and m.node[s].get('pure'))
        kindname = 'pure' if (s == m.top and m.node[s].get('pure')) else \
            ('critical' if crit_s else 'non-critical')
        if not a.dj:
            # empty scheduler: trivially successful
            out.count('empty schedulers')
            if not a.ended_ok or ft or fc or why != 'FINE':
                out.violation('empty-scheduler', "%s is empty but ended %s %r diag=%r/%r/%r"
                              % (s, rend['kind'], rend.get('val'), ft, fc, why))
            continue
        # ---- the claimed cause, from the verdict's form and the diagnosis
        if a.ended_ok:
            claimed = 'success'
        elif ft and not fc:
            claimed = 'timeout'
        elif fc and not ft:
            claimed = 'critical'
        elif ft and fc:
            claimed = 'both'
        else:
            claimed = 'none'
        if a.allowed is not None:
            out.count('verdicts checked against events (iff clause)')
            out.count('cell %s/%s/depth%d' % (a.cause or claimed, kindname, m.depth[s]))
            if len(a.allowed) > 1:
                out.count('tie cases (several causes at one instant): %s' % '+'.join(sorted(a.allowed)))
            if a.T == 0:
                out.count('timeout=0 runs')
            if a.ended_ok and 'success' not in a.allowed:
                out.violation('success-not-allowed',
                              "%s reported success but events allow only %s (t0=%s T=%s t_all=%s tc=%s)"
                              % (s, sorted(a.allowed), a.t0, a.T, a.t_all, a.tc))
            if not a.ended_ok and not (a.allowed - {'success'}):
                out.violation('failure-not-allowed',
                              "%s reported failure (%s %r) but all its non-forever jobs finished at %s, "
                              "before its timeout (%s) and no critical job raised"
                              % (s, rend['kind'], rend.get('val', rend.get('exc')), a.t_all, a.texp))
            if not a.ended_ok and claimed in ('timeout', 'critical') and claimed not in a.allowed:
                out.violation('wrong-diagnosis',
                              "%s diagnoses %s (ft=%r fc=%r why=%r) but events allow %s "
                              "(t0=%s T=%s t_all=%s tc=%s)"
                              % (s, claimed, ft, fc, why, sorted(a.allowed), a.t0, a.T, a.t_all, a.tc))
            out.nontrivial = True
        else:
            out.count('runs of schedulers without non-forever job (form only)')
        # ---- form
        if a.ended_ok:
            out.count('success forms checked')
            if ft or fc or why != 'FINE':
                out.violation('success-with-diagnosis',
                              "%s succeeded but failed_time_out()=%r failed_critical()=%r why()=%r"
                              % (s, ft, fc, why))
            continue
        out.count('failure forms checked')
        if claimed in ('none', 'both'):
            out.violation('failure-without-single-cause',
                          "%s failed (%s %r) but failed_time_out()=%r failed_critical()=%r why()=%r"
                          % (s, rend['kind'], rend.get('val', rend.get('exc')), ft, fc, why))
        if crit_s:
            if rend['kind'] != 'run_raise':
                out.violation('critical-scheduler-returned',
                              "critical scheduler %s failed (%s) but returned %r instead of raising"
                              % (s, claimed, rend.get('val')))
            else:
                exc = rend['exc']
                # which failure the exception stands for must itself be allowed
                if any(exc is e['exc'] for e in a.crit_raises):
                    shown = 'critical'
                    out.count('identity checks of the re-raised exception')
                    if len(a.crit_raises) > 1:
                        out.count('  ... with several critical raisers')
                elif isinstance(exc, TimeoutError):
                    shown = 'timeout'
                    out.count('TimeoutError raised by a critical scheduler')
                else:
                    shown = None
                    out.violation('foreign-exception',
                                  "critical scheduler %s raised %r, which is neither TimeoutError nor the "
                                  "exception object of one of its critical jobs %r"
                                  % (s, exc, [e['exc'] for e in a.crit_raises]))
                if shown and a.allowed is not None and shown not in a.allowed:
                    out.violation('exception-names-wrong-cause',
                                  "%s raised %r (%s) but events allow %s" % (s, exc, shown, sorted(a.allowed)))
                if shown and claimed in ('timeout', 'critical') and shown != claimed:
                    out.violation('exception-vs-diagnosis',
                                  "%s raised %r but diagnoses %s" % (s, exc, claimed))
        else:
            if rend['kind'] != 'run_return' or rend.get('val') is not False:
                out.violation('non-critical-scheduler-form',
                              "%s scheduler %s failed but ended with %s %r"
                              % (kindname, s, rend['kind'], rend.get('val', rend.get('exc'))))
        if claimed == 'timeout' and 'TIMED OUT' not in (why or ''):
            out.violation('why-mismatch', "%s: failed_time_out() but why()=%r" % (s, why))
        if claimed == 'critical' and 'CRITICAL' not in (why or ''):
            out.violation('why-mismatch', "%s: failed_critical() but why()=%r" % (s, why))
    # top level: the diagnosis read again after run() must not have changed,
    # and what leaves run() is what the top-level co_run produced
    a = m.run(m.top)
    if a is not None and a.rend is not None and m.exe.terminated:
        out.count('top-level diagnosis re-read after run()')
        if m.exe.top_diag != diagnosis(a.rend):
            out.violation('diagnosis-changed', "top-level diagnosis %r at the end of co_run became %r after run()"
                          % (diagnosis(a.rend), m.exe.top_diag))
        v = m.exe.verdict
        if a.rend['kind'] == 'run_return' and not (v[0] == 'return' and v[1] is a.rend['val']):
            out.violation('run-vs-co_run', "run() gave %r but co_run returned %r" % (v, a.rend['val']))
        if a.rend['kind'] == 'run_raise' and not (v[0] == 'raise' and v[1] is a.rend['exc']):
            out.violation('run-vs-co_run', "run() gave %r but co_run raised %r" % (v, a.rend['exc']))


# ------------------------------------------------------------------ abort clauses (C05, C08, C09)
def relay_clause(m, s, n, c, out, what):
    """
    The nested scheduler `n`, a job of `s`, got the cancel request `c` while its
    run was in progress.  "Everything running is cancelled at that instant"
    holds at any depth: whatever `n` is waiting for at that moment - bodies of
    jobs in its subtree, or co_shutdown() handlers if it is in a shutdown
    phase - is interrupted in that very instant (or ends by itself in it), and
    `n` itself is over when those are.  Nothing here depends on the phase `n`
    is in, which is the point: no phase of a nested run may sit a cancellation
    out.
    """
    t = c['t']
    en = m.enter(n)
    be = m.body_end(n)
    if en is None or en['seq'] > c['seq'] or (be is not None and be['seq'] < c['seq']):
        return
    out.count('nested schedulers cancelled while their run was in progress')
    last = t
    for x in m.subtree_atoms(n):
        ex = m.enter(x)
        if ex is not None and ex['seq'] < c['seq']:
            nxt = m.first(x, ('cancel', 'return', 'raise'), after=ex['seq'])
            if nxt is None or nxt['seq'] > c['seq']:
                out.count('  ... bodies executing inside them at that moment')
                if nxt is None or nxt['t'] != t:
                    out.violation('cancel-not-relayed',
                                  "%s %s at t=%s and cancelled its nested scheduler %s: the body of %s, running "
                                  "inside it, was %s" % (s, what, t, n, x, "never interrupted" if nxt is None
                                                         else "left alone until t=%s (%s)" % (nxt['t'], nxt['kind'])))
        for sx in m.all(x, ('sd_enter',)):
            if sx['seq'] > c['seq']:
                continue
            nxt = m.first(x, ('sd_cancel', 'sd_return'), after=sx['seq'])
            if nxt is None or nxt['seq'] > c['seq']:
                out.count('  ... co_shutdown() handlers executing inside them at that moment')
                if nxt is None or nxt['t'] != t:
                    out.violation('cancel-not-relayed',
                                  "%s %s at t=%s and cancelled its nested scheduler %s: the co_shutdown() of %s, "
                                  "pending inside it, was %s" % (s, what, t, n, x, "never interrupted" if nxt is None
                                                                 else "left alone until t=%s (%s)" % (nxt['t'], nxt['kind'])))
    if be is not None:
        # (jobs started in the very instant of the request, before it reached
        # them, count as well: whatever ends inside `n` after the request)
        for x in m.subtree_atoms(n):
            for e in m.by[x]:
                if c['seq'] < e['seq'] < be['seq'] and e['kind'] in BODYEND + ('sd_cancel', 'sd_return'):
                    last = max(last, e['t'])
    if be is not None and be['kind'] == 'run_cancel' and be['t'] != last:
        out.violation('cancelled-nested-run-end',
                      "%s %s at t=%s and cancelled its nested scheduler %s, whose run ended at t=%s although "
                      "everything it was waiting for was over at t=%s" % (s, what, t, n, be['t'], last))


def abort_clauses(m, a, out, what):
    """
    S left its main loop at instant ta for cause `what`: nothing starts later,
    everything running or queued is cancelled at that instant, nothing
    completes normally later, shutdown starts when the cancellations are
    complete, and the run ends when the shutdown returns.
    """
    s, ta, stop, lim = a.sid, a.ta, a.stop, a.lim
    final = getattr(m.exe, 'final', {})
    attributed = m.cancel_attribution
    if not attributed:
        out.count('aborts whose cancel requests could not be attributed to jobs (clauses skipped)')
    else:
        out.count('aborts with cancel requests attributed to jobs')
    cancelled_bodyends = []
    for j in a.dj:
        en = m.enter(j)
        e = m.end(j)
        be = m.body_end(j)
        cs = [c for c in m.cancels(j) if a.enter['seq'] < c['seq'] < lim]
        out.count('sibling jobs examined at an abort')
        if en is not None and en['t'] > ta:
            out.violation('start-after-abort', "%s %s at t=%s but %s started later, at t=%s"
                          % (s, what, ta, j, en['t']))
        if en is not None and stop is not None and en['seq'] > stop['seq'] and en['seq'] < lim:
            out.violation('start-after-stop', "%s %s: %s started (seq %d) after the scheduler stopped (seq %d)"
                          % (s, what, j, en['seq'], stop['seq']))
        if e is not None and e['t'] > ta:
            out.violation('normal-completion-after-abort',
                          "%s %s at t=%s but %s completed normally later, at t=%s" % (s, what, ta, j, e['t']))
        if cs and m.is_sched[j]:
            relay_clause(m, s, j, cs[0], out, what)
        for c in cs:
            if c['t'] != ta:
                out.violation('cancel-at-wrong-instant',
                              "%s %s at t=%s but %s got a cancel request at t=%s" % (s, what, ta, j, c['t']))
            if e is not None and e['seq'] > c['seq']:
                out.violation('completed-after-cancel', "%s: %s completed normally after its cancel request" % (s, j))
        running = en is not None and en['t'] <= ta and (e is None or e['t'] > ta)
        if running:
            out.count('jobs running at the abort instant')
            out.nontrivial = True
            if m.is_sched[j]:
                out.count('  ... of which nested schedulers')
            if not cs and attributed:
                out.violation('running-job-not-cancelled',
                              "%s %s at t=%s: %s was running and never got a cancel request" % (s, what, ta, j))
        # queued for a window slot: eligible strictly before ta, never entered
        if a.window and en is None:
            ends = [m.end(r) for r in m.req[j]]
            if all(x is not None and x['t'] < ta for x in ends) and a.t0 < ta:
                out.count('jobs queued for a slot at the abort instant')
                out.nontrivial = True
                if not cs and attributed:
                    out.violation('queued-job-not-cancelled',
                                  "%s %s at t=%s: %s was waiting for a window slot and never got a cancel request"
                                  % (s, what, ta, j))
        if cs and be is not None and be['seq'] < lim:
            cancelled_bodyends.append(be['t'])
        # jobs that had already finished keep their results
        if e is not None and e['t'] <= ta and e['seq'] < lim and j in final:
            out.count('finished jobs whose result was re-read after the abort')
            rec = final[j]
            if e['kind'] in END_OK:
                if not rec['done'] or rec.get('result') is not e.get('val'):
                    out.violation('result-lost', "%s finished before %s aborted but result() is %r / done=%r"
                                  % (j, s, rec.get('result', rec.get('result_error')), rec['done']))
            else:
                if rec.get('exc') is not e.get('exc'):
                    out.violation('exception-lost', "%s raised before %s aborted but raised_exception() is %r"
                                  % (j, s, rec.get('exc')))
    # shutdown phase and end of run
    se, sr = a.shut_enter, a.shut_end
    if se is None:
        out.violation('no-shutdown-phase', "%s %s at t=%s but never entered its shutdown phase" % (s, what, ta))
        return
    out.count('abort -> shutdown -> end sequences timed')
    expected = max([ta] + cancelled_bodyends)
    if se['t'] != expected:
        out.violation('shutdown-start-instant',
                      "%s %s at t=%s: shutdown began at t=%s, expected t=%s (abort instant, or end of the "
                      "cancellations)" % (s, what, ta, se['t'], expected))
    if sr is None or sr['kind'] != 'shut_return' or sr['seq'] > lim or sr['t'] != a.rend['t']:
        out.violation('end-instant', "%s: run ended at t=%s but its shutdown phase ended %s"
                      % (s, a.rend['t'], "never" if sr is None else "%s at t=%s" % (sr['kind'], sr['t'])))


def mon_c05(m, out):
    for s in m.scheds():
        a = m.run(s)
        if a is None or a.cause is None:
            continue
        if a.tc is not None and a.allowed and 'critical' in a.allowed and a.cause != 'critical':
            out.count('critical raise tied with another cause that won (accepted)')
        if a.cause != 'critical':
            continue
        out.count('critical aborts analysed')
        out.count('critical aborts at depth %d' % m.depth[s])
        # position of the failure relative to the other completions
        for j in a.dj:
            e = m.end(j)
            if e is not None and e not in a.crit_raises:
                if e['t'] == a.tc:
                    out.count('other completion in the same instant as the critical raise')
                    out.tag('tie')
        abort_clauses(m, a, out, "critical failure")
        for cr in a.crit_raises:
            for q in m.succ[cr['who']]:
                out.count('jobs requiring the failed job')
                if m.enter(q) is not None:
                    out.violation('successor-of-failed-job-started',
                                  "%s: %s requires the failed critical job %s and was started"
                                  % (s, q, cr['who']))
        if a.ended_ok:
            out.violation('critical-raise-ignored',
                          "%s: critical job raised at t=%s (strictly before the last completion) but the run "
                          "reported success" % (s, a.tc))


# ------------------------------------------------------------------ C08
def mon_c08(m, out):
    for s in m.scheds():
        a = m.run(s)
        if a is None or a.T is None or a.rend is None:
            continue
        out.count('runs of schedulers with a timeout')
        if m.depth[s] > 0:
            out.count('  ... nested (T measured from its own start)')
        if a.rend['kind'] == 'run_cancel':
            # cancelled by the enclosing scheduler: must have happened before expiry took effect
            continue
        if not a.nonf and a.cause is None:
            continue
        if a.cause == 'timeout':
            out.count('expiries analysed')
            if not a.nonf:
                out.count('  ... of schedulers holding forever jobs only')
            if a.T == 0:
                out.count('expiries with T=0')
            if a.t_all is not None and a.t_all == a.texp:
                out.count('expiry exactly on the last completion (tie)')
            abort_clauses(m, a, out, "timed out")
            if a.stop is not None and a.stop['t'] != a.texp:
                out.violation('stop-instant', "%s: timeout expired at t=%s but the scheduler stopped at t=%s"
                              % (s, a.texp, a.stop['t']))
            if a.ended_ok:
                out.violation('expiry-ignored', "%s: not over at t0+T=%s but the run reported success"
                              % (s, a.texp))
            elif a.allowed == {'timeout'}:
                # "... and ends with the timeout verdict": False, or TimeoutError
                # from a critical scheduler - nothing else when no other cause exists
                out.count('timeout verdicts checked for their form')
                rend = a.rend
                if rend['kind'] == 'run_raise' and not isinstance(rend.get('exc'), TimeoutError):
                    out.violation('timeout-verdict', "%s timed out at t=%s (nothing else had failed) but its run "
                                  "raised %r" % (s, a.texp, rend.get('exc')))
                elif rend['kind'] == 'run_return' and rend.get('val') is not False:
                    out.violation('timeout-verdict', "%s timed out at t=%s but its run returned %r"
                                  % (s, a.texp, rend.get('val')))
        elif a.cause is not None:
            # converse: all over strictly before t0+T -> the timeout has no effect
            ta = a.ta
            if ta < a.texp:
                out.count('runs over strictly before expiry (timeout must have no effect)')
                out.nontrivial = True
                for j in a.dj:
                    for c in m.cancels(j):
                        if a.enter['seq'] < c['seq'] < a.lim and c['t'] != ta:
                            out.violation('early-or-late-cancel',
                                          "%s ended (%s) at t=%s, before its expiry t=%s, but %s got a cancel "
                                          "request at t=%s" % (s, a.cause, ta, a.texp, j, c['t']))
                if a.rend['t'] > a.texp and a.shut_enter is not None and a.shut_enter['t'] < a.texp:
                    out.count('shutdown phase crossing the expiry instant')
                # "the timeout has no effect": neither on the shutdown phase,
                # whose own bound is shutdown_timeout alone
                se, sr = a.shut_enter, a.shut_end
                if se is not None and sr is not None and sr['kind'] == 'shut_return':
                    sdt = m.node[s].get('sdt', 1)
                    bound = None if sdt is None else se['t'] + sdt
                    if bound is None or bound > a.texp:
                        out.count('shutdown phases that may outlast the expiry instant of a finished run')
                    for j in a.dj:
                        for e in m.all(j, ('sd_cancel', 'shut_cancel')):
                            if se['seq'] < e['seq'] < sr['seq'] and e['t'] != bound and e['t'] == a.texp:
                                out.violation('timeout-reaches-into-shutdown',
                                              "%s was over (%s) at t=%s, before its expiry t=%s, yet the co_shutdown() "
                                              "of %s was cut at t=%s (shutdown began at t=%s, shutdown_timeout %s)"
                                              % (s, a.cause, ta, a.texp, j, e['t'], se['t'], sdt))
            elif ta == a.texp:
                out.count('other cause exactly at expiry (tie, accepted)')


# ------------------------------------------------------------------ C09
def mon_c09(m, out):
    for s in m.scheds():
        a = m.run(s)
        if a is None or a.cause != 'success':
            continue
        fj = [j for j in a.dj if m.forever(j)]
        out.count('successful runs analysed')
        if fj:
            out.count('  ... with forever jobs')
            out.count('forever jobs under successful runs', len(fj))
        abort_clauses(m, a, out, "finished its last non-forever job")
        for j in fj:
            en, e = m.enter(j), m.end(j)
            if en is None:
                out.count('forever jobs never started')
            elif e is not None and e['t'] < a.ta:
                out.count('forever jobs that ended before the last regular job')
                if m.succ[j]:
                    out.count('  ... with dependants released (judged by C12 clauses)')
            elif e is not None and e['t'] == a.ta:
                out.count('forever jobs ending in the same instant as the last regular job')
            else:
                out.count('forever jobs cut short')
            if m.is_sched[j] and en is not None:
                out.count('forever nested schedulers started')
        if not a.ended_ok:
            out.violation('success-expected', "%s: last non-forever job finished at t=%s, nothing failed, but the "
                          "run did not report success" % (s, a.ta))
        if a.rend['t'] < a.ta:
            out.violation('ended-early', "%s ended at t=%s before its last non-forever job (t=%s)"
                          % (s, a.rend['t'], a.ta))


# ------------------------------------------------------------------ C07
def mon_c07(m, out):
    for s in m.scheds():
        n = m.node[s].get('window')
        a = m.run(s)
        if a is None:
            continue
        if not n:
            continue
        out.count('windowed scheduler runs replayed')
        running = set()
        peak = 0
        seen_kinds = set()
        djs = set(a.dj)
        # a nested scheduler occupies its slot for as long as anything it
        # started is executing: its own run, or a job of its subtree that
        # (wrongly) outlives it
        owner = {}
        last_end = {}
        for j in a.dj:
            if m.is_sched[j]:
                for inner in m.subtree_all(j):
                    owner[inner] = j
                    be = m.body_end(inner)
                    if m.enter(inner) is not None:
                        last_end[j] = max(last_end.get(j, -1), be['seq'] if be is not None else len(m.ev) + 1)
        for e in m.ev:
            j = e['who']
            if j in owner and e['kind'] in BODYEND:
                top_j = owner[j]
                own = m.body_end(top_j)
                if own is not None and own['seq'] < e['seq'] and e['seq'] >= last_end.get(top_j, -1):
                    running.discard(top_j)
                continue
            if j not in djs:
                continue
            if e['kind'] in START:
                running.add(j)
                peak = max(peak, len(running))
                if len(running) > n:
                    out.violation('window-exceeded', "%s: window %d exceeded at seq %d t=%s: %s execute at once "
                                  "(a nested scheduler counts until everything it started is over)"
                                  % (s, n, e['seq'], e['t'], sorted(running)))
            elif e['kind'] in BODYEND:
                seen_kinds.add(e['kind'])
                if m.is_sched[j] and last_end.get(j, -1) > e['seq']:
                    continue        # something it started is still executing
                running.discard(j)
        if peak == n:
            out.count('saturated runs, window %d depth %d' % (n, m.depth[s]))
            out.nontrivial = True
        if len(a.dj) > n:
            out.count('runs with more jobs than slots')
        for k in seen_kinds:
            out.count('bodies under a window ending by %s' % k)
        if any(m.is_sched[j] for j in a.dj):
            out.count('windows holding nested schedulers')
        # nested scope: jobs of nested schedulers never count against s
    for s in m.scheds():
        if not m.node[s].get('window') and m.parent.get(s) and m.node[m.parent[s]].get('window'):
            a = m.run(s)
            if a is not None:
                out.count('unwindowed nested runs under a windowed parent')


# ------------------------------------------------------------------ C11
def mon_c11(m, out):
    exe = m.exe
    for s in m.scheds():
        a = m.run(s)
        if a is None:
            continue
        rend = a.rend
        if rend is None:
            if exe.terminated:
                out.violation('run-never-ended', "%s began its run but it never ended" % s)
            continue
        out.count('scheduler run ends examined (%s)' % rend['kind'])
        out.count('ends at depth %d by %s' % (m.depth[s], rend['kind']))
        for j in m.subtree_all(s):
            en, be = m.enter(j), m.body_end(j)
            if en is not None and en['seq'] < rend['seq'] and (be is None or be['seq'] > rend['seq']):
                out.violation('job-still-executing',
                              "%s ended (%s, t=%s) while %s was still executing" % (s, rend['kind'], rend['t'], j))
            if en is not None and en['seq'] > rend['seq']:
                out.violation('job-started-after-end',
                              "%s ended (%s, t=%s) but %s started afterwards (t=%s)"
                              % (s, rend['kind'], rend['t'], j, en['t']))
            if rend['kind'] != 'run_cancel':
                for x in m.all(j, ('sd_enter', 'shut_enter')):
                    closing = ('sd_return', 'sd_cancel') if x['kind'] == 'sd_enter' else ('shut_return', 'shut_cancel')
                    y = m.first(j, closing, after=x['seq'])
                    if x['seq'] < rend['seq']:
                        out.count('shutdown handlers launched before a run end')
                        if y is None or y['seq'] > rend['seq']:
                            out.violation('handler-still-pending',
                                          "%s ended (%s) while the shutdown handler of %s was still pending"
                                          % (s, rend['kind'], j))
        if rend['kind'] == 'run_cancel':
            out.nontrivial = True
            # phase of the nested run when the cancellation reached it
            st = a.stop
            own_exit = st is not rend and (
                (a.texp is not None and a.texp <= st['t']) or
                (a.tc is not None and a.tc <= st['t']) or a.all_ended)
            if a.shut_enter is not None:
                phase = 'shutting-down'
            elif own_exit:
                phase = 'cancelling-own-jobs'
            else:
                phase = 'main-loop'
            out.count('cancelled while %s, depth %d' % (phase, m.depth[s]))
            out.tag('cancel:' + phase)
    if exe.terminated:
        out.count('top-level runs followed by a run-on period')
        if exe.pending_at_return:
            out.violation('tasks-pending-after-run',
                          "%d task(s) created by the run are still unfinished after run() ended: %s"
                          % (len(exe.pending_at_return),
                             [getattr(getattr(t, '_job', None), 'vid', '?') for t in exe.pending_at_return][:6]))
        late = m.ev[exe.n_at_return:exe.n_after_runon]
        if late:
            out.violation('activity-after-run',
                          "%d event(s) logged while the loop ran on after run() ended, first: %s of %s at t=%s"
                          % (len(late), late[0]['kind'], late[0]['who'], late[0]['t']))
        if exe.tasks_after_runon != exe.tasks_at_return:
            out.violation('tasks-created-after-run', "%d task(s) created while the loop ran on"
                          % (exe.tasks_after_runon - exe.tasks_at_return))
        if exe.runon_error is not None:
            out.count('run-on period ended by %s' % type(exe.runon_error).__name__)
    for rep in exe.loop.handler_reports:
        out.count('diagnostic: loop exception handler: %s' % rep[:40])


# ------------------------------------------------------------------ C12
def mon_c12(m, out):
    for s in m.scheds():
        a = m.run(s)
        if a is None:
            continue
        stop = a.stop
        if stop is None:
            # never left its main loop (run did not terminate): C03's business
            continue
        t_stop = stop['t']
        if not a.window:
            for j in a.dj:
                ends = [m.end(r) for r in m.req[j]]
                en = m.enter(j)
                if en is not None and en['seq'] > a.lim:
                    continue
                if all(x is not None for x in ends):
                    tel = max([x['t'] for x in ends], default=a.t0)
                    out.count('eligible jobs in unwindowed schedulers')
                    if len(ends) >= 2 and len({x['t'] for x in ends}) == 1:
                        out.count('  ... whose requirements finished in one instant')
                        out.nontrivial = True
                    if any(m.forever(r) for r in m.req[j]):
                        out.count('  ... released by a forever job that ended')
                    if en is not None:
                        if en['t'] != tel:
                            out.violation('late-start', "%s: %s became eligible at t=%s but started at t=%s"
                                          % (s, j, tel, en['t']))
                    elif tel < t_stop:
                        out.violation('never-started',
                                      "%s: %s became eligible at t=%s and never started although the scheduler "
                                      "ran until t=%s" % (s, j, tel, t_stop))
                    if m.req[j]:
                        out.nontrivial = True
        else:
            n = a.window
            times = sorted({e['t'] for e in m.ev if a.t0 <= e['t'] < t_stop})
            for t in times:
                running = 0
                waiting = []
                for j in a.dj:
                    en, be = m.enter(j), m.body_end(j)
                    if en is not None and en['t'] <= t and (be is None or be['t'] > t):
                        running += 1
                    if en is None or en['t'] > t:
                        ends = [m.end(r) for r in m.req[j]]
                        if all(x is not None and x['t'] <= t for x in ends):
                            waiting.append(j)
                out.count('quiescent instants of windowed schedulers examined')
                if waiting and running >= n:
                    out.count('  ... with eligible jobs waiting behind a full window')
                    out.nontrivial = True
                if running < n and waiting:
                    out.violation('free-slot-wasted',
                                  "%s: at the end of instant t=%s only %d/%d job(s) running but %s eligible and "
                                  "waiting" % (s, t, running, n, waiting))


# ------------------------------------------------------------------ C13
def mon_c13(m, out):
    exe = m.exe
    for s in m.scheds():
        a = m.run(s)
        if a is None or a.rend is None:
            continue
        rend = a.rend
        if rend['kind'] != 'run_cancel':
            out.count('run ends by %s checked for complete shutdown' % (a.cause or rend['kind']))
            for atom in m.subtree_atoms(s):
                sds = [x for x in m.all(atom, ('sd_enter',)) if x['seq'] < rend['seq']]
                out.count('atoms counted at a run end')
                if m.enter(atom) is None:
                    out.count('  ... never started')
                elif m.first(atom, ('cancel',)) is not None:
                    out.count('  ... cancelled')
                elif m.raised(atom):
                    out.count('  ... raised')
                if len(sds) != 1:
                    out.violation('shutdown-count-at-end',
                                  "%s ended (%s) but %s had received co_shutdown() %d time(s)"
                                  % (s, rend['kind'], atom, len(sds)))
            out.nontrivial = True
        # never while a job of the same scheduler is running
        marks = m.all(s, ('shut_enter',)) + [x for j in a.dj if not m.is_sched[j]
                                             for x in m.all(j, ('sd_enter',))]
        for x in marks:
            out.count('shutdown events checked against running siblings')
            for k in a.dj:
                en, be = m.enter(k), m.body_end(k)
                if en is not None and en['seq'] < x['seq'] and (be is None or be['seq'] > x['seq']):
                    out.violation('shutdown-while-running',
                                  "%s: %s of %s at t=%s while job %s of the same scheduler was still running"
                                  % (s, x['kind'], x['who'], x['t'], k))
    # scope: atoms of a nested N that ended by itself got it during N's own shutdown phase
    for s in m.scheds():
        a = m.run(s)
        ses = m.all(s, ('shut_enter',))
        for idx, se in enumerate(ses):
            sr = m.first(s, ('shut_return', 'shut_cancel'), after=se['seq'])
            if idx == 0:
                own = a is not None and a.shut_enter is se
                out.count('shutdown phases (%s)' % ('own run end' if own else 'relayed by the enclosing scheduler'))
                if not own and a is None:
                    out.count('  ... of schedulers that never started')
                if not own and a is not None and a.rend is not None and a.rend['kind'] == 'run_cancel':
                    out.count('  ... of schedulers that were cancelled')
            sdt = m.node[s].get('sdt', 1)
            handlers_cancelled = []
            for j in m.direct(s):
                kinds_c = ('shut_cancel',) if m.is_sched[j] else ('sd_cancel',)
                kinds_e = ('shut_enter',) if m.is_sched[j] else ('sd_enter',)
                x = m.first(j, kinds_e, after=se['seq'], before=sr['seq'] if sr else None)
                if x is None:
                    continue
                c = m.first(j, kinds_c, after=x['seq'], before=(sr['seq'] + 1) if sr else None)
                if c is not None:
                    handlers_cancelled.append((j, c))
            if sr is None:
                if exe.terminated:
                    out.violation('shutdown-never-ended', "%s: shutdown phase begun at t=%s never ended" % (s, se['t']))
                continue
            launched = [x for j in m.direct(s)
                        for x in m.all(j, ('sd_enter', 'shut_enter')) if se['seq'] < x['seq'] < sr['seq']]
            # "handlers still pending then being cancelled", at any depth: whatever
            # co_shutdown() this phase caused, directly or through nested
            # schedulers, is over (returned or cancelled) when the phase is
            direct = set(m.direct(s))
            for x in m.subtree_atoms(s):
                for sx in m.all(x, ('sd_enter',)):
                    if not se['seq'] < sx['seq'] < sr['seq']:
                        continue
                    out.count('handlers launched inside a shutdown phase')
                    if x not in direct:
                        out.count('  ... through nested schedulers')
                    end = m.first(x, ('sd_return', 'sd_cancel'), after=sx['seq'])
                    if end is None or end['seq'] > sr['seq']:
                        out.violation('handler-outlives-shutdown-phase',
                                      "%s: its shutdown phase ended (%s, t=%s) while the co_shutdown() of %s, launched "
                                      "during it at t=%s, was %s" % (s, sr['kind'], sr['t'], x, sx['t'],
                                                                    "never over" if end is None else
                                                                    "not over before t=%s (%s)" % (end['t'], end['kind'])))
            if idx > 0:
                out.count('repeated co_shutdown() calls on a scheduler')
                if launched:
                    out.violation('second-shutdown-sent-something',
                                  "%s: a second co_shutdown() launched %d handler(s)" % (s, len(launched)))
                continue
            dur = sr['t'] - se['t']
            if sr['kind'] == 'shut_return':
                out.count('shutdown phases timed')
                if sdt is not None:
                    if dur > sdt:
                        out.violation('shutdown-too-long', "%s: shutdown phase lasted %s > shutdown_timeout %s"
                                      % (s, dur, sdt))
                    if dur == sdt and handlers_cancelled:
                        out.count('shutdown phases cut at shutdown_timeout')
                for j, c in handlers_cancelled:
                    if sdt is None or c['t'] != se['t'] + sdt:
                        out.violation('handler-cancelled-at-wrong-instant',
                                      "%s: handler of %s cancelled at t=%s, shutdown began t=%s, shutdown_timeout %s"
                                      % (s, j, c['t'], se['t'], sdt))
                expected = not handlers_cancelled
                if bool(sr.get('val')) != expected or sr.get('val') not in (True, False):
                    out.violation('shutdown-result',
                                  "%s: co_shutdown() returned %r but %s" % (
                                      s, sr.get('val'),
                                      "no handler had to be cancelled" if expected else
                                      "handlers of %s were cancelled" % [j for j, _ in handlers_cancelled]))
                if handlers_cancelled:
                    out.count('co_shutdown() returning False')
                else:
                    out.count('co_shutdown() returning True')
    # exactly once over the whole log, explicit shutdown included
    if exe.terminated:
        idx_explicit = next((e['seq'] for e in m.ev if e['kind'] == 'explicit_shutdown'), None)
        for atom in m.subtree_atoms(m.top):
            n = len(m.all(atom, ('sd_enter',)))
            out.count('atoms counted over the whole log')
            if n != 1:
                out.violation('shutdown-count', "%s received co_shutdown() %d time(s) over the whole execution"
                              % (atom, n))
        if idx_explicit is not None:
            out.count('explicit shutdown() after the run')
            late = [e for e in m.ev[idx_explicit + 1:] if e['kind'] in ('sd_enter',)]
            atop = m.run(m.top)
            if atop is not None and atop.rend is not None and atop.rend['kind'] == 'run_cancel':
                # not one of the three exit paths: the caller gave up on the run,
                # which therefore had no shutdown phase of its own; the explicit
                # call is then what delivers co_shutdown() (once: clause above)
                out.count('explicit shutdown() after a run cancelled by its caller')
            elif late:
                out.violation('explicit-shutdown-sent-something',
                              "a later explicit co_shutdown() reached %s" % [e['who'] for e in late][:5])
            es = exe.explicit_shutdown
            if es is None or es[0] != 'return':
                out.violation('explicit-shutdown-failed', "explicit co_shutdown() after the run: %r" % (es,))


# ------------------------------------------------------------------ C10 (trace part)
def mon_c10(m, out):
    nested = [s for s in m.scheds() if s != m.top]
    for s in nested:
        a = m.run(s)
        p = m.parent[s]
        pa = m.run(p)
        en = m.enter(s)
        # 1. one job: starts when its requirements have finished ...
        if en is not None:
            out.count('nested runs observed')
            out.nontrivial = True
            for r in m.req[s]:
                e = m.end(r)
                out.count('nested start vs requirement')
                if e is None or e['seq'] > en['seq']:
                    out.violation('nested-start-before-requirement',
                                  "nested scheduler %s began before its requirement %s ended" % (s, r))
            if pa is not None and not pa.window and m.req[s]:
                ends = [m.end(r) for r in m.req[s]]
                if all(x is not None for x in ends):
                    tel = max(x['t'] for x in ends)
                    if en['t'] != tel:
                        out.violation('nested-late-start', "nested scheduler %s eligible at t=%s began at t=%s"
                                      % (s, tel, en['t']))
        # ... and finishes when its own run does: successors start at its end instant
        e_s = m.end(s)
        if e_s is not None and pa is not None and not pa.window:
            for q in m.succ[s]:
                ends = [m.end(r) for r in m.req[q]]
                if all(x is not None for x in ends):
                    tel = max(x['t'] for x in ends)
                    enq = m.enter(q)
                    out.count('successors of a nested scheduler')
                    if enq is not None and (enq['seq'] < e_s['seq'] or enq['t'] != tel):
                        out.violation('successor-of-nested',
                                      "%s requires nested %s (ended t=%s): started at t=%s, eligible at t=%s"
                                      % (q, s, e_s['t'], enq['t'], tel))
        if a is None or a.rend is None:
            continue
        # its window and timeout apply to its own jobs only
        if a.T is not None and pa is not None and pa.cause is not None:
            for j in pa.dj:
                if j == s:
                    continue
                for c in m.cancels(j):
                    if c['t'] == a.texp and pa.ta != a.texp and pa.enter['seq'] < c['seq'] < pa.lim:
                        out.violation('inner-timeout-leaked',
                                      "sibling %s of nested %s was cancelled at the nested scheduler's expiry t=%s"
                                      % (j, s, a.texp))
            out.count('nested timeouts checked for scope')
        # 2. containment / 3. propagation
        rend = a.rend
        failed = rend['kind'] == 'run_raise' or (rend['kind'] == 'run_return' and rend.get('val') is not True)
        if failed:
            flags = []
            x = s
            while x is not None:
                flags.append('C' if m.critical(x) else 'n')
                x = m.parent[x]
            out.count('failed nested runs, critical flags up the chain %s' % ''.join(flags))
        if failed and not m.critical(s):
            out.count('failed runs of non-critical nested schedulers')
            if rend['kind'] != 'run_return' or rend.get('val') is not False:
                out.violation('containment-form', "non-critical nested %s failed but %s %r"
                              % (s, rend['kind'], rend.get('val', rend.get('exc'))))
            rec = getattr(m.exe, 'final', {}).get(s)
            if rec is not None and rend['kind'] == 'run_return':
                out.count('parent reading result() of a failed non-critical nested scheduler')
                if rec.get('result') is not False:
                    out.violation('containment-result', "%s failed, non-critical: result() is %r, expected False"
                                  % (s, rec.get('result', rec.get('result_error'))))
            # the parent carries on: it is not aborted at that instant for that reason
            if pa is not None and pa.rend is not None and pa.rend['kind'] != 'run_cancel' and pa.allowed is not None:
                if not pa.ended_ok and not (pa.allowed - {'success'}):
                    out.violation('containment-parent-aborted',
                                  "%s failed although the only failure below it is the non-critical nested %s"
                                  % (p, s))
        if failed and m.critical(s):
            out.count('failed runs of critical nested schedulers')
            if rend['kind'] == 'run_return':
                # "propagates through a critical one, whose parent aborts exactly
                # as for a raising critical job": a failure that is merely
                # returned is contained, not propagated
                out.violation('propagation-form', "critical nested %s failed but returned %r instead of raising: "
                              "its parent %s sees a job that finished" % (s, rend.get('val'), p))
            if rend['kind'] == 'run_raise':
                exc = rend['exc']
                out.count('exception identity checked one level up')
                if any(exc is e['exc'] for e in a.crit_raises):
                    pass
                elif isinstance(exc, TimeoutError) and (a.allowed is None or 'timeout' in a.allowed):
                    out.count('  ... TimeoutError born at this level')
                else:
                    out.violation('propagation-identity',
                                  "%s raised %r which is not the exception object of one of its critical jobs"
                                  % (s, exc))
                # the parent aborts exactly as for a raising critical job
                if pa is not None and pa.rend is not None and pa.rend['kind'] != 'run_cancel' and pa.allowed is not None:
                    if 'critical' not in pa.allowed:
                        out.violation('propagation-parent', "critical nested %s raised at t=%s but parent %s "
                                      "could not have failed critically (allowed %s)"
                                      % (s, rend['t'], p, sorted(pa.allowed)))
    # the object that leaves the top-level run() is the one raised innermost
    v = m.exe.verdict
    if v[0] == 'raise':
        out.count('exceptions leaving the top-level run()')
        origin = [e for e in m.ev if e['kind'] in ('raise', 'run_raise') and e.get('exc') is v[1]]
        if not origin:
            out.violation('propagation-origin', "run() raised %r which no job or scheduler raised" % (v[1],))
        else:
            # the path of the object from where it was raised up to the top; the
            # same object may have been raised at several places (a sentinel
            # instance shared by the whole program): one complete path is enough
            def path_problems(first):
                probs = []
                if first['kind'] == 'run_raise' and not isinstance(v[1], TimeoutError):
                    probs.append(('propagation-origin', "%r first appears as raised by scheduler %s, no job raised it"
                                  % (v[1], first['who'])))
                x = m.parent[first['who']]
                hops = 0
                if not m.critical(first['who']):
                    probs.append(('propagation-through-non-critical', "%r was raised by non-critical %s"
                                  % (v[1], first['who'])))
                while x is not None:
                    rr = m.first(x, ('run_raise',))
                    if rr is None or rr['exc'] is not v[1]:
                        probs.append(('propagation-chain', "%s did not re-raise the object %r" % (x, v[1])))
                        break
                    if not m.critical(x):
                        probs.append(('propagation-through-non-critical', "%r bubbled through non-critical %s"
                                      % (v[1], x)))
                    hops += 1
                    x = m.parent[x]
                return probs, hops
            candidates = [e for e in origin if e['kind'] == 'raise'] or origin[:1]
            results = [path_problems(e) for e in candidates]
            if len(candidates) > 1:
                out.count('  ... of an object raised at several places')
            good = [r for r in results if not r[0]]
            probs, hops = good[0] if good else results[0]
            for clause, msg in probs:
                out.violation(clause, msg)
            out.count('  ... through %d scheduler level(s)' % hops)


MONITORS = {
    'C01': mon_c01, 'C02': mon_c02, 'C03': mon_c03, 'C04': mon_c04, 'C05': mon_c05,
    'C07': mon_c07, 'C08': mon_c08, 'C09': mon_c09, 'C10': mon_c10, 'C11': mon_c11,
    'C12': mon_c12, 'C13': mon_c13,
}
