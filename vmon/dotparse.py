"""
An independent recursive-descent parser for the DOT subset asynciojobs emits
(DESIGN.md 4, C20): graph / subgraph, attribute lists, node and edge
statements; IDs are numerals, identifiers or double-quoted strings in which
\\" is the only escape.
"""
import re


class DotSyntaxError(Exception):
    pass


TOKEN = re.compile(r'''
    (?P<ws>\s+ | //[^\n]* | /\*.*?\*/ )
  | (?P<arrow>->)
  | (?P<punct>[{}\[\];,=])
  | (?P<id>[A-Za-z_\200-\377][A-Za-z0-9_\200-\377]*|-?(?:\.[0-9]+|[0-9]+(?:\.[0-9]*)?))
  | (?P<quote>")
''', re.X | re.S)


# reserved words of the DOT language (case-insensitive): they cannot be used as
# an unquoted ID (graph name, node id, attribute name or value)
KEYWORDS = {'node', 'edge', 'graph', 'digraph', 'subgraph', 'strict'}


def tokenize(text):
    tokens = []
    i, n = 0, len(text)
    while i < n:
        m = TOKEN.match(text, i)
        if not m:
            raise DotSyntaxError("unexpected character %r at offset %d: ...%r" % (text[i], i, text[max(0, i - 20):i + 20]))
        if m.lastgroup == 'ws':
            i = m.end()
        elif m.lastgroup == 'quote':
            j = i + 1
            buf = []
            while True:
                if j >= n:
                    raise DotSyntaxError("unterminated string starting at offset %d" % i)
                c = text[j]
                if c == '\\' and j + 1 < n and text[j + 1] == '"':
                    buf.append('"')
                    j += 2
                elif c == '"':
                    break
                else:
                    buf.append(c)
                    j += 1
            tokens.append(('str', ''.join(buf)))
            i = j + 1
        else:
            tokens.append((m.lastgroup, m.group()))
            i = m.end()
    return tokens


class Graph:
    def __init__(self, name, parent=None):
        self.name = name
        self.parent = parent
        self.attrs = {}          # graph [..] attributes
        self.node_defaults = {}  # node [..] defaults in force so far in this (sub)graph
        self.edge_defaults = {}
        self.plain = {}          # a=b; statements
        self.nodes = []          # (id, attrs) in this (sub)graph only
        self.edges = []          # (tail, head, attrs)
        self.subgraphs = []

    def all_nodes(self):
        out = list(self.nodes)
        for g in self.subgraphs:
            out += g.all_nodes()
        return out

    def all_edges(self):
        out = list(self.edges)
        for g in self.subgraphs:
            out += g.all_edges()
        return out

    def all_subgraphs(self):
        out = []
        for g in self.subgraphs:
            out.append(g)
            out += g.all_subgraphs()
        return out


class Parser:
    def __init__(self, text):
        self.toks = tokenize(text)
        self.i = 0

    def peek(self):
        return self.toks[self.i] if self.i < len(self.toks) else ('eof', None)

    def next(self):
        tok = self.peek()
        self.i += 1
        return tok

    def expect(self, kind, value=None):
        tok = self.next()
        if tok[0] != kind or (value is not None and tok[1] != value):
            raise DotSyntaxError("expected %s %r, got %r (token %d)" % (kind, value, tok, self.i))
        return tok

    def is_id(self, tok):
        if tok[0] == 'id' and tok[1].lower() in KEYWORDS:
            raise DotSyntaxError("the keyword %r is used as an unquoted ID" % tok[1])
        return tok[0] in ('id', 'str')

    def parse(self):
        tok = self.next()
        if tok != ('id', 'digraph'):
            raise DotSyntaxError("expected 'digraph', got %r" % (tok,))
        name = None
        if self.is_id(self.peek()):
            name = self.next()[1]
        g = self.body(Graph(name))
        if self.peek()[0] != 'eof':
            raise DotSyntaxError("trailing tokens after the graph: %r" % (self.peek(),))
        return g

    def body(self, g):
        self.expect('punct', '{')
        while True:
            tok = self.peek()
            if tok == ('punct', '}'):
                self.next()
                return g
            if tok[0] == 'eof':
                raise DotSyntaxError("unexpected end of input inside a graph body")
            self.statement(g)
            if self.peek() == ('punct', ';'):
                self.next()

    def attr_list(self):
        attrs = {}
        while self.peek() == ('punct', '['):
            self.next()
            while self.peek() != ('punct', ']'):
                k = self.next()
                if not self.is_id(k):
                    raise DotSyntaxError("attribute name expected, got %r" % (k,))
                self.expect('punct', '=')
                v = self.next()
                if not self.is_id(v):
                    raise DotSyntaxError("attribute value expected, got %r" % (v,))
                if k[1] in attrs:
                    raise DotSyntaxError("attribute %r given twice" % k[1])
                attrs[k[1]] = v[1]
                if self.peek() in (('punct', ','), ('punct', ';')):
                    self.next()
            self.expect('punct', ']')
        return attrs

    def statement(self, g):
        tok = self.next()
        if tok == ('id', 'subgraph'):
            name = self.next()
            if not self.is_id(name):
                raise DotSyntaxError("subgraph name expected, got %r" % (name,))
            sub = Graph(name[1], g)
            # DOT semantics: defaults in force at this point are inherited
            sub.node_defaults.update(g.node_defaults)
            sub.edge_defaults.update(g.edge_defaults)
            g.subgraphs.append(self.body(sub))
            return
        if tok in (('id', 'graph'), ('id', 'node'), ('id', 'edge')) and self.peek() == ('punct', '['):
            attrs = self.attr_list()
            if tok[1] == 'graph':
                for k, v in attrs.items():
                    if k in g.attrs:
                        raise DotSyntaxError("graph attribute %r given twice" % k)
                    g.attrs[k] = v
            elif tok[1] == 'node':
                g.node_defaults.update(attrs)
            else:
                g.edge_defaults.update(attrs)
            return
        if not self.is_id(tok):
            raise DotSyntaxError("statement cannot start with %r" % (tok,))
        nxt = self.peek()
        if nxt == ('punct', '='):
            self.next()
            v = self.next()
            if not self.is_id(v):
                raise DotSyntaxError("value expected after '=', got %r" % (v,))
            g.plain[tok[1]] = v[1]
            return
        if nxt == ('arrow', '->'):
            self.next()
            head = self.next()
            if not self.is_id(head):
                raise DotSyntaxError("edge head expected, got %r" % (head,))
            if self.peek() == ('arrow', '->'):
                raise DotSyntaxError("edge chains are not part of the emitted subset")
            g.edges.append((tok[1], head[1], dict(g.edge_defaults, **self.attr_list())))
            return
        g.nodes.append((tok[1], dict(g.node_defaults, **self.attr_list())))


def parse(text):
    return Parser(text).parse()
