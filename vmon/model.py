"""
Model: indexes one recorded execution (spec + event log) and derives, from
events only, what happened to each scheduler run (DESIGN.md section 4
vocabulary: start, end, bodyend, cancel, t0, T, stop).

Nothing here reads failed_time_out()/failed_critical()/why(): the diagnosis
accessors are read by the C04 monitor alone.
"""
from .spec import walk, is_sched

START = ('enter', 'run_enter')
END_OK = ('return', 'run_return')
END_KO = ('raise', 'run_raise')
END = END_OK + END_KO
BODYEND = END + ('cancel_done', 'run_cancel')


class SchedRun:
    """what happened during the (first) run of one scheduler, from events"""
    pass


class Model:
    def __init__(self, exe):
        self.exe = exe
        self.spec = spec = exe.spec
        self.ev = exe.trace.events
        self.node, self.parent, self.depth = {}, {}, {}
        for n, p, d in walk(spec):
            self.node[n['id']] = n
            self.parent[n['id']] = p['id'] if p else None
            self.depth[n['id']] = d
        self.is_sched = {i: is_sched(n) for i, n in self.node.items()}
        self.req = {i: set() for i in self.node}
        self.succ = {i: set() for i in self.node}
        for i, n in self.node.items():
            for a, b in n.get('edges', []):
                self.req[a].add(b)
                self.succ[b].add(a)
        self.top = spec['id']
        self.by = {i: [] for i in self.node}
        for e in self.ev:
            lst = self.by.get(e['who'])
            if lst is not None:
                lst.append(e)
        self._runs = {}
        # task-level cancel requests are attributed to jobs through task._job,
        # the back-reference the library installs itself; if a refactoring ever
        # drops it, the clauses that need it are not evaluated (-> inconclusive)
        loop = getattr(exe, 'loop', None)
        unattributed = getattr(loop, 'unattributed_cancels', 0) if loop is not None else 0
        attributed = any(e['kind'] == 'task_cancel' for e in self.ev)
        self.cancel_attribution = attributed or not unattributed

    # ---- structure
    def direct(self, s):
        return [j['id'] for j in self.node[s]['jobs']]

    def subtree_atoms(self, s):
        out = []
        for j in self.node[s]['jobs']:
            if is_sched(j):
                out += self.subtree_atoms(j['id'])
            else:
                out.append(j['id'])
        return out

    def subtree_all(self, s):
        out = []
        for j in self.node[s]['jobs']:
            out.append(j['id'])
            if is_sched(j):
                out += self.subtree_all(j['id'])
        return out

    def scheds(self):
        return [i for i in self.node if self.is_sched[i]]

    def critical(self, j):
        n = self.node[j]
        if j == self.top and n.get('pure'):
            return False
        return n.get('critical', True)

    def forever(self, j):
        return bool(self.node[j].get('forever'))

    # ---- events
    def first(self, who, kinds, after=-1, before=None):
        for e in self.by[who]:
            if e['kind'] in kinds and e['seq'] > after:
                if before is not None and e['seq'] >= before:
                    return None
                return e
        return None

    def all(self, who, kinds):
        return [e for e in self.by[who] if e['kind'] in kinds]

    def enter(self, j):
        return self.first(j, START)

    def enters(self, j):
        return self.all(j, START)

    def end(self, j):
        """normal end: the body returned or raised"""
        return self.first(j, END)

    def raised(self, j):
        return self.first(j, END_KO)

    def body_end(self, j):
        """the moment the body stops executing"""
        return self.first(j, BODYEND)

    def cancels(self, j):
        return self.all(j, ('task_cancel',))

    # ---- per-scheduler analysis
    def run(self, s):
        if s in self._runs:
            return self._runs[s]
        r = self._runs[s] = self._analyse(s)
        return r

    def _analyse(self, s):
        re_ = self.enter(s)
        if re_ is None:
            return None
        a = SchedRun()
        a.sid = s
        a.enter = re_
        a.rend = rend = self.first(s, ('run_return', 'run_raise', 'run_cancel'), after=re_['seq'])
        a.t0 = re_['t']
        a.T = self.node[s].get('timeout')
        a.texp = a.t0 + a.T if a.T is not None else None
        a.dj = dj = self.direct(s)
        a.nonf = nonf = [j for j in dj if not self.forever(j)]
        a.window = self.node[s].get('window') or None
        lim = rend['seq'] if rend is not None else len(self.ev) + 1
        a.lim = lim
        # stop(S): the observable instant at which S left its main loop
        cands = []
        for j in dj:
            c = self.first(j, ('task_cancel',), after=re_['seq'], before=lim)
            if c is not None:
                cands.append(c)
        se = self.first(s, ('shut_enter',), after=re_['seq'], before=lim)
        a.shut_enter = se
        a.shut_end = None
        if se is not None:
            a.shut_end = self.first(s, ('shut_return', 'shut_cancel'), after=se['seq'])
            cands.append(se)
        a.stop = min(cands, key=lambda e: e['seq']) if cands else rend
        # ends of non-forever direct jobs inside the run
        ends = [self.first(j, END, before=lim) for j in nonf]
        a.all_ended = bool(nonf) and all(e is not None for e in ends)
        a.t_all = max(e['t'] for e in ends) if a.all_ended else None
        a.crit_raises = []
        for j in dj:
            if self.critical(j):
                e = self.first(j, END_KO, before=lim)
                if e is not None:
                    a.crit_raises.append(e)
        a.tc = min((e['t'] for e in a.crit_raises), default=None)
        a.ended_ok = bool(rend is not None and rend['kind'] == 'run_return' and rend.get('val') is True)
        # allowed causes (tie policy: equalities allow either)
        a.allowed = None
        a.cause, a.ta = None, None
        if rend is None or rend['kind'] == 'run_cancel':
            return a
        if not nonf:
            # a scheduler of forever jobs only runs until one of them ends or
            # its timeout fires (README, example D).  The one case that every
            # reading of the statements agrees on: none of its jobs has ended
            # when T expires -> the run was "not over T seconds after it
            # began", the cause is the timeout and nothing else
            any_end = [self.first(j, END, before=lim) for j in dj]
            if dj and a.texp is not None and not any(any_end) and rend['t'] >= a.texp:
                a.allowed = {'timeout'}
                a.cause, a.ta = 'timeout', a.texp
                a.tc_regular = None
                a.tie_crit_timeout = False
            return a
        t_all, tc, texp = a.t_all, a.tc, a.texp
        # a critical job that is NOT forever and raised can never be part of a
        # success: its own end is that raise.  Only a *forever* critical job
        # raising in the very instant of the last regular completion is a tie.
        tc_regular = min((e['t'] for e in a.crit_raises if not self.forever(e['who'])), default=None)
        tc_forever = min((e['t'] for e in a.crit_raises if self.forever(e['who'])), default=None)
        a.tc_regular = tc_regular
        allowed = set()
        if t_all is not None and tc_regular is None and (tc_forever is None or tc_forever >= t_all) \
                and (texp is None or t_all <= texp):
            allowed.add('success')
        if tc is not None and (t_all is None or tc <= t_all) and (texp is None or tc <= texp):
            allowed.add('critical')
        if texp is not None and (t_all is None or t_all >= texp) and (tc is None or tc >= texp):
            allowed.add('timeout')
        a.allowed = allowed
        # the cause carried through: ties are resolved by the form of the
        # verdict (True or not), never by the diagnosis flags
        if a.ended_ok and 'success' in allowed:
            a.cause = 'success'
        elif not a.ended_ok and allowed - {'success'}:
            rest = allowed - {'success'}
            a.cause = 'critical' if 'critical' in rest else 'timeout'
            a.tie_crit_timeout = len(rest) == 2
        elif len(allowed) == 1:
            # the verdict has the wrong form (C04's business); the abort
            # clauses are still judged against the only possible cause
            a.cause = next(iter(allowed))
        a.ta = {'success': t_all, 'critical': tc, 'timeout': texp, None: None}[a.cause]
        return a

    def fingerprint(self):
        import hashlib
        h = hashlib.md5()
        for e in self.ev:
            h.update(("%s:%s@%s;" % (e['kind'], e['who'], e['t'])).encode())
        return h.hexdigest()[:16]


def event_repr(e):
    out = {}
    for k, v in e.items():
        if k in ('exc', 'val'):
            out[k] = repr(v)
        else:
            out[k] = v
    return out


def trace_repr(events, limit=400):
    return [event_repr(e) for e in events[:limit]]
