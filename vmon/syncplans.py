"""
Campaign plans for the synchronous API, C15-C20.
('cases', generator name, quick count, thorough count); for the *_exhaustive
generators the count is the size of the enumerated space of the tier, so the
enumeration is complete.
"""
from . import synccases as sc

SYNC = {
    'C15': [('cases', 'c15_exhaustive', sc.c15_exhaustive_size('quick'), sc.c15_exhaustive_size('thorough')),
            ('cases', 'c15_tree', 4000, 150000), ('cases', 'c15_history', 1500, 60000),
            ('suite',)],
    'C16': [('cases', 'c16_tree', 20000, 1000000),
            ('suite',)],
    'C17': [('cases', 'c17_exhaustive', sc.c17_exhaustive_size('quick'), sc.c17_exhaustive_size('thorough')),
            ('cases', 'c17_random', 1500, 60000), ('cases', 'c17_iterate', 3000, 100000),
            ('cases', 'c17_large', 120, 3000),
            ('suite',)],
    'C18': [('cases', 'c18_exhaustive', sc.c18_exhaustive_size('quick'), sc.c18_exhaustive_size('thorough')),
            ('cases', 'c18_history', 4000, 200000), ('cases', 'c18_large', 60, 1500),
            ('suite',)],
    'C19': [('cases', 'c19_program', 30000, 1500000)],
    'C20': [('cases', 'c20_tree', 12000, 400000), ('cases', 'c20_large', 40, 1000),
            ('suite',)],
}

DECIDING = {
    'C15': ['check_cycles() calls compared', 'topological_order() on acyclic graphs',
            'topological_order() on cyclic graphs', 'list() numberings checked', 'cyclic<->acyclic transitions',
            'cycle planted at depth 2'],
    'C16': ['sanitize() calls compared', 'closed trees with nested schedulers', 'trees with dangling requirements'],
    'C17': ['neighbour/closure queries compared', 'multi-start queries', 'entry/exit queries compared',
            'edits applied before re-asking', 'trees with nested schedulers traversed',
            'queries answered under a budget of logical steps'],
    'C18': ['bypass_and_remove() calls compared', 'keep_only() calls compared',
            'keep_only_between() calls compared', 'operations applied in sequence'],
    'C19': ['statements interpreted by library and model', 'append() with several jobs',
            'sequence used as a requirement (remove=True)', 'KeyError on absent requirement'],
    'C20': ['outputs parsed completely', 'nodes matched with atomic jobs', 'edges matched with requirements',
            'clusters matched with nested schedulers', 'labels with quotes / newlines / DOT punctuation compared',
            'list() outputs checked', 'trees exported once before being completed (history)'],
}

RULES = {
    'C15': "every labelled digraph up to the tier's size (quick: <=3 nodes with self-loops, 4 nodes without; thorough "
           "adds 4 nodes with self-loops and 5 nodes without), under both scheduler classes and random hash "
           "permutations; random digraphs planted at a level of a depth<=3 tree; edge-toggling histories; "
           "non-trivial = >=2 nodes / cycle planted below the top / a cyclic<->acyclic transition; distinct = distinct graphs",
    'C16': "random scheduler trees (depth<=3) with requirement edges to members, outsiders, jobs of sibling / parent "
           "/ child schedulers and to/from nested schedulers; non-trivial = nested schedulers present or something "
           "to remove; distinct = distinct generator keys",
    'C17': "every DAG up to the tier's size (quick 4, thorough 5 nodes) under a random relabelling, all start sets of "
           "size <=3, then random edit histories; random DAGs to 12 nodes; path-rich DAGs of 40-150 nodes under a budget of logical steps; random trees for iterate_jobs; "
           "non-trivial = >=3 nodes; distinct = distinct graphs / keys",
    'C18': "every DAG up to the tier's size x every bypass target x every keep_only subset x all starts/ends subsets "
           "of size <=2 x both flags; random operation sequences on DAGs to 12 nodes; non-trivial = >=3 nodes / "
           ">=2 operations; distinct = distinct graphs / keys",
    'C19': "random programs of 3-12 construction statements interpreted by the library and by a model of the "
           "documented semantics, compared after each statement; non-trivial = >=3 statements executed; "
           "distinct = distinct programs",
    'C20': "random trees (depth<=3, empty nested schedulers included) with labels over quotes, newlines, DOT "
           "punctuation, keywords and non-ASCII; non-trivial = at least one nested scheduler; distinct = distinct keys",
}
