"""
Scenario specifications: random generators, profiles, systematic sweeps,
admissibility predicate (DESIGN.md 3.3).

All durations are small multiples of 1/2 so that every sum is exact in binary
floating point and "the same instant" is == on virtual time.
"""
import copy
import itertools
import random


def is_sched(node):
    return 'jobs' in node


def walk(spec, parent=None, depth=0):
    """yields (node, parent scheduler node, depth)"""
    yield spec, parent, depth
    for job in spec.get('jobs', []):
        if is_sched(job):
            yield from walk(job, spec, depth + 1)
        else:
            yield job, spec, depth + 1


def atoms_of(spec):
    return [n for n, p, d in walk(spec) if not is_sched(n)]


def scheds_of(spec):
    return [n for n, p, d in walk(spec) if is_sched(n)]


def never_ends(node):
    """an atom whose body never returns by itself"""
    return not is_sched(node) and node.get('dur', 0) is None


def horizon_of(spec):
    """an upper bound on the virtual duration of any run that makes progress:
    the sum of every finite delay in the tree, plus slack"""
    total = 50.0
    for node, _, _ in walk(spec):
        if is_sched(node):
            total += (node.get('timeout') or 0)
            sdt = node.get('sdt', 1)
            total += (sdt or 0)
        else:
            total += (node.get('dur') or 0) + (node.get('ticker') or 0)
            total += (node.get('cdur') or 0) + (node.get('sdur') or 0)
            itmo = node.get('itmo')
            if itmo:
                total += itmo.get('rounds', 1) * (itmo['after'] + itmo['close'])
    return total


# ---------------------------------------------------------------- admissibility
def requirements_closure(sched):
    req = {j['id']: set() for j in sched['jobs']}
    for a, b in sched.get('edges', []):
        req[a].add(b)
    changed = True
    while changed:
        changed = False
        for a in req:
            for b in list(req[a]):
                new = req[b] - req[a]
                if new:
                    req[a] |= new
                    changed = True
    return req


def admissible(spec, strict=True):
    """
    Independent re-check of the precondition of C01-C14 (taken from the
    statement of C03).  Returns a list of reasons why the tree is NOT
    admissible (empty list = admissible).

    strict=True additionally rejects what the statement leaves out of its
    domain although the library accepts it: a scheduler without timeout and
    without any non-forever job (empty nested schedulers included).
    """
    reasons = []

    def rec(sched, free, bounded_sd):
        # free: some enclosing-or-self scheduler has a timeout: anything goes
        free = free or sched.get('timeout') is not None
        # a shutdown phase is bounded by the shutdown_timeout of the scheduler
        # that owns the job (None = unbounded, as documented): a never-ending
        # handler under an unbounded shutdown legitimately never ends
        bounded_sd = sched.get('sdt', 1) is not None
        jobs = sched['jobs']
        ids = [j['id'] for j in jobs]
        if len(set(ids)) != len(ids):
            reasons.append("duplicate ids in %s" % sched['id'])
        byid = {j['id']: j for j in jobs}
        # closed, acyclic
        for a, b in sched.get('edges', []):
            if a not in byid or b not in byid:
                reasons.append("edge %s->%s leaves scheduler %s" % (a, b, sched['id']))
                return
            if a == b:
                reasons.append("self-loop on %s" % a)
                return
        req = requirements_closure(sched)
        if any(a in req[a] for a in req):
            reasons.append("cycle in %s" % sched['id'])
            return
        window = sched.get('window')
        if window is not None and window < 0:
            reasons.append("negative window")
        if not free:
            nonforever = [j for j in jobs if not j.get('forever')]
            if not nonforever and (strict or jobs):
                reasons.append("scheduler %s has no timeout and no non-forever job" % sched['id'])
            for j in jobs:
                if never_ends(j) and not j.get('forever'):
                    reasons.append("non-forever job %s never ends" % j['id'])
                if not j.get('forever'):
                    for b in req[j['id']]:
                        if never_ends(byid[b]):
                            reasons.append("non-forever job %s depends on never-ending %s" % (j['id'], b))
            nn = sum(1 for j in jobs if never_ends(j))
            if window and window <= nn:
                reasons.append("window %s of %s not larger than its %d never-ending jobs" % (window, sched['id'], nn))
        for j in jobs:
            if is_sched(j):
                rec(j, free, bounded_sd)
            else:
                if j.get('sdur', 0) is None and not bounded_sd:
                    reasons.append("never-ending shutdown handler %s under unbounded shutdown" % j['id'])
    rec(spec, False, False)
    return reasons


# ---------------------------------------------------------------- random trees
HALF = [0, 0.5, 1, 1.5, 2, 3, 4]

PROFILES = {
    'generic': {},
    'ties': dict(durs=[1, 1, 2, 2], pres=[0, 0, 1, 2], posts=[0, 1, 2, 3], dens=[0.4, 0.7, 0.9],
                 p_timeout=0.1, p_window=0.25, p_raise=0.2, njobs=[3, 4, 5, 6, 7], p_nest=0.15,
                 p_forever=0.08),
    'windows': dict(p_window=1.0, windows=[1, 1, 2, 2, 3], p_raise=0.4, p_critical=0.15,
                    njobs=[3, 4, 5, 6, 7], p_timeout=0.15, dens=[0.0, 0.2, 0.4], durs=[0, 1, 1, 2, 3]),
    'abort': dict(p_raise=0.45, p_critical=0.7, p_timeout=0.5, cdurs=[0, 0, 1, 2], p_window=0.35,
                  durs=[0, 1, 1, 2, 2, 3], posts=[0, 0, 1, 2, 3], njobs=[3, 4, 5, 6]),
    'forever': dict(p_forever=0.4, p_never=0.5, p_timeout=0.25, p_raise=0.15, p_forever_sched=0.3,
                    njobs=[2, 3, 4, 5, 6]),
    'shutdown': dict(sdurs=[0, 1, 3, 0.5, 2], p_sd_never=0.15, sdts=[0, 1, 2, None, 0.5],
                     p_timeout=0.4, p_raise=0.3, p_critical=0.5, p_nest=0.35),
    'vwin': dict(p_verbose=1.0, p_window=0.9, windows=[1, 1, 2, 2, 3], durs=[1, 1, 2, 2], pres=[0, 0, 1, 2], posts=[0, 1, 2, 3],
                 dens=[0.3, 0.5, 0.8], njobs=[4, 5, 6, 7, 8], p_raise=0.3, p_critical=0.2, p_timeout=0.1, p_nest=0.15),
    # critical windowed nested schedulers with many critical jobs queueing for a slot
    'cwin': dict(maxdepth=3, p_nest=0.35, njobs=[2, 3, 4], njobs_nested=[3, 4, 5, 6], p_window=0.8, windows=[1, 1, 2],
                 p_critical=0.7, p_sched_critical=0.8, p_raise=0.3, dens=[0.0, 0.1, 0.3], p_timeout=0.25,
                 durs=[0.5, 1, 1, 2, 3], p_forever=0.05),
    'big': dict(njobs=[7, 8, 9, 10, 12], njobs_nested=[3, 4, 5, 6, 7], dens=[0.1, 0.2, 0.3], p_nest=0.2,
                p_window=0.4, windows=[1, 2, 3, 4, 5], p_timeout=0.15, durs=[0, 0.5, 1, 1, 2, 2, 3], p_raise=0.2),
    'nesting': dict(maxdepth=3, p_nest=0.45, njobs_nested=[0, 1, 2, 2, 3], njobs=[2, 3, 4],
                    p_timeout=0.25, p_window=0.3, p_raise=0.3, p_critical=0.6, p_sched_critical=0.6),
}


def gen_tree(rng, prof=None, depth=0, idgen=None, top=True, maxdepth=None):
    p = prof or {}
    if maxdepth is None:
        maxdepth = p.get('maxdepth', 2)
    if idgen is None:
        idgen = itertools.count()
    spec = dict(id="S%d" % next(idgen))
    if top:
        n = rng.choice(p.get('njobs', [2, 3, 3, 4, 5, 6]))
    else:
        n = rng.choice(p.get('njobs_nested', [1, 2, 2, 3, 3, 4, 5]))
        if rng.random() < p.get('p_empty', 0.05):
            n = 0
    timeout = None
    if rng.random() < p.get('p_timeout', 0.3):
        timeout = rng.choice(p.get('timeouts', [0, 0.5, 1, 2, 3, 4, 6]))
    spec['timeout'] = timeout
    window = None
    if rng.random() < p.get('p_window', 0.4):
        window = rng.choice(p.get('windows', [1, 1, 2, 3]))
    elif rng.random() < 0.05:
        window = 0          # documented: None or 0 means no limit
    spec['window'] = window
    spec['sdt'] = rng.choice(p.get('sdts', [1, 1, 0, 2, None]))
    spec['critical'] = rng.random() < p.get('p_sched_critical', 0.6)
    spec['forever'] = (not top) and rng.random() < p.get('p_forever_sched', 0.1)
    spec['verbose'] = rng.random() < p.get('p_verbose', 0.15)
    if not top and rng.random() < 0.08:
        spec['label'] = rng.choice([7, 3.5, -1, ''])    # labels need not be strings
    r = rng.random()
    if r < 0.25:
        spec['style'] = 'incremental'
    elif r < 0.45:
        spec['style'] = 'required_arg'
    if top and rng.random() < 0.3:
        spec['entry'] = 'co_run'
    if top and rng.random() < p.get('p_extcancel', 0.04):
        # the caller gives up after a while (the run may be over by then)
        spec['entry'] = dict(wait_for=rng.choice([0.5, 1, 1.5, 2, 2.5, 3, 4, 6]))
    if rng.random() < (0.5 if spec['verbose'] else 0.06):
        spec['watch'] = True
    if top:
        spec['pure'] = rng.random() < p.get('p_pure', 0.25)
    jobs = []
    for _ in range(n):
        if depth < maxdepth and rng.random() < p.get('p_nest', 0.25):
            job = gen_tree(rng, p, depth + 1, idgen, top=False, maxdepth=maxdepth)
        else:
            job = dict(id="j%d" % next(idgen))
            job['dur'] = rng.choice(p.get('durs', [0, 1, 1, 2, 2, 3, 4, 0.5, 1.5]))
            job['pre'] = rng.choice(p.get('pres', [0, 0, 0, 1, 2]))
            job['post'] = rng.choice(p.get('posts', [0, 0, 0, 1, 2, 3]))
            job['critical'] = rng.random() < p.get('p_critical', 0.5)
            job['forever'] = rng.random() < p.get('p_forever', 0.15)
            job['outcome'] = 'raise' if rng.random() < p.get('p_raise', 0.25) else 'return'
            if job['outcome'] == 'raise' and rng.random() < 0.4:
                job['exc'] = rng.choice(['timeout', 'key', 'custom', 'base', 'empty', 'multiline', 'group', 'queue', 'runtime',
                                         'notimpl', 'sealed', 'shared', 'shared', 'unhashable', 'unhashable', 'braces'])
            if job['outcome'] == 'return' and rng.random() < 0.2:
                job['retval'] = rng.choice(['none', 'false', 'zero', 'empty', 'future', 'pending', 'excval'])
            job['cdur'] = rng.choice(p.get('cdurs', [0, 0, 0, 1, 2]))
            job['cyields'] = rng.choice([0, 0, 1])
            job['sdur'] = rng.choice(p.get('sdurs', [0, 0, 0, 1, 3]))
            job['syields'] = rng.choice([0, 0, 1])
            job['coro'] = rng.random() < 0.3
            if rng.random() < p.get('p_printjob', 0.06) and job['outcome'] == 'return':
                # the library's own PrintJob: it cannot fail, honours cancellation at once
                job.update(print=rng.choice(['none', 'int', 'str']), coro=False, pre=0, post=0,
                           cdur=0, cyields=0, sdur=0, syields=0)
                job.pop('retval', None)
            if job['forever'] and rng.random() < p.get('p_never', 0.6):
                job['dur'] = None
                if rng.random() < 0.5:
                    job['ticker'] = rng.choice([1, 2])
            if rng.random() < p.get('p_sd_never', 0.04):
                job['sdur'] = None
            if rng.random() < 0.15:
                job['sswallow'] = True
            if not job.get('print') and rng.random() < p.get('p_itmo', 0.06):
                # a job that times out an inner operation by itself and carries on
                job['itmo'] = dict(after=rng.choice([0.5, 1, 1.5]), close=rng.choice([0.5, 1, 2, 3]),
                                   rounds=rng.choice([1, 1, 2]))
            if not job.get('print') and rng.random() < 0.06:
                job['touch'] = True
            if rng.random() < 0.08:
                job['label'] = rng.choice([7, 3.5, -1, ''])     # labels need not be strings
            if not job.get('print') and job['dur'] and rng.random() < p.get('p_sub', 0.06):
                # the job spends its main delay in tasks of its own
                job['sub'] = rng.choice(['gather', 'taskgroup', 'shield'])
            if job.get('print'):
                # a PrintJob always ends by itself and has a trivial co_shutdown()
                if job['dur'] is None:
                    job['dur'] = 2
                job.pop('ticker', None)
                job['sdur'] = 0
        jobs.append(job)
    hashes = list(range(len(jobs)))
    rng.shuffle(hashes)
    for job, h in zip(jobs, hashes):
        job['hash'] = h
    spec['jobs'] = jobs
    order = list(range(n))
    rng.shuffle(order)
    edges = []
    dens = rng.choice(p.get('dens', [0.0, 0.2, 0.4, 0.7]))
    for x in range(n):
        for y in range(x):
            if rng.random() < dens:
                edges.append([jobs[order[x]]['id'], jobs[order[y]]['id']])
    spec['edges'] = edges
    if top:
        make_admissible(rng, spec)
    return spec


def make_admissible(rng, spec, free=False, bounded_sd=False):
    """constructive enforcement of the precondition (the independent predicate
    `admissible` re-checks it before any verdict is taken)"""
    free = free or spec.get('timeout') is not None
    bounded_sd = spec.get('sdt', 1) is not None
    jobs = spec['jobs']
    byid = {j['id']: j for j in jobs}
    if free:
        # "a scheduler with a timeout terminates whatever its jobs do":
        # occasionally a never-ending non-forever job
        for j in jobs:
            if not is_sched(j) and not j.get('print') and rng.random() < 0.08:
                j['dur'] = None
    elif jobs:
        if all(j.get('forever') for j in jobs):
            rng.choice(jobs)['forever'] = False
        for j in jobs:
            if never_ends(j) and not j.get('forever'):
                j['dur'] = 1
                j.pop('ticker', None)
        req = requirements_closure(spec)
        bad = set()
        for a in req:
            if not byid[a].get('forever'):
                for b in req[a]:
                    if never_ends(byid[b]):
                        bad.add(b)
        for b in bad:
            byid[b]['dur'] = 2
            byid[b].pop('ticker', None)
        nn = sum(1 for j in jobs if never_ends(j))
        if spec.get('window') and spec['window'] <= nn:
            spec['window'] = nn + 1
    for j in jobs:
        if is_sched(j):
            make_admissible(rng, j, free, bounded_sd)
        elif j.get('sdur', 0) is None and not bounded_sd:
            j['sdur'] = 1


def add_history(rng, spec, p_pre=0.8, p_mid=0.5, p_post=0.6):
    """decorate a scenario with a history of synchronous-API calls that must
    be invisible: inspections before / during / after the run and neutral edit
    pairs (edge added then removed, job added then removed) before it"""
    pre = []
    if rng.random() < p_pre:
        scheds = [n for n, _, _ in walk(spec) if is_sched(n) and n['jobs']]
        for _ in range(rng.randint(1, 3)):
            kind = rng.choice(['inspect', 'edge', 'edge', 'ghost', 'sanitize'])
            if kind in ('inspect', 'sanitize'):
                pre.append([kind])
                continue
            s = rng.choice(scheds)
            ids = [j['id'] for j in s['jobs']]
            if kind == 'ghost':
                pre.append(['ghost', s['id'], rng.choice(ids + [None])])
            elif len(ids) >= 2:
                req = requirements_closure(s)
                a, b = rng.sample(ids, 2)
                direct = {tuple(e) for e in s.get('edges', [])}
                # adding "a requires b" must not close a cycle nor duplicate an edge
                if a not in req[b] and (a, b) not in direct:
                    pre.append(['edge', a, b])
    spec['history'] = dict(pre=pre, mid=rng.random() < p_mid, post=rng.random() < p_post)
    return spec


def random_spec(seed, profile='generic'):
    rng = random.Random("%s/%s" % (profile, seed))
    spec = gen_tree(rng, PROFILES[profile])
    if rng.random() < PROFILES[profile].get('p_history', 0.3):
        add_history(rng, spec)
    return spec


# ---------------------------------------------------------------- systematic sweeps
def atom(id_, dur=1, **kw):
    d = dict(id=id_, dur=dur, critical=kw.pop('critical', False))
    d.update(kw)
    return d


def sched(id_, jobs, edges=(), **kw):
    d = dict(id=id_, jobs=list(jobs), edges=[list(e) for e in edges],
             timeout=kw.pop('timeout', None), window=kw.pop('window', None),
             sdt=kw.pop('sdt', 1), critical=kw.pop('critical', False))
    d.update(kw)
    return d


def assign_hashes(spec, rng=None):
    for node, _, _ in walk(spec):
        if is_sched(node):
            hs = list(range(len(node['jobs'])))
            if rng is not None:
                rng.shuffle(hs)
            for j, h in zip(node['jobs'], hs):
                j.setdefault('hash', h)
    return spec


def phase_sweep(thorough=False):
    """
    crash points: grand-parent G / parent P / nested N with timeouts on a
    half-step grid crossed with cancellation and shutdown delays, so that the
    enclosing scheduler ends while the nested run is in each phase: not
    started, main loop, cancelling its jobs, shutting down, finished.
    Three ways for P to end: its timeout, a critical sibling failing, success
    with N being a forever job.
    """
    half = [x / 2 for x in range(0, 13 if thorough else 10)]
    tGs = [None, 1.5, 3, 4.5] if thorough else [None, 2.5]
    tNs = [None, 1, 2.5]
    delays = [0, 1, 2] if thorough else [0, 1]
    sdtNs = [0, 1, None]
    sdtPs = [0.5, 2]
    for mode in ('timeout', 'critical', 'forever'):
        for tG, x, tN, cdur, sdur, sdtN, sdtP in itertools.product(
                tGs, half, tNs, delays, delays, sdtNs, sdtPs):
            inner = sched('N', [atom('a', 2, cdur=cdur, sdur=sdur, post=1),
                                atom('b', 1, outcome='raise'),
                                atom('c', 1.5, cdur=0, sdur=0, coro=True)],
                          edges=[('c', 'b')], timeout=tN, sdt=sdtN, critical=True)
            sib = atom('p', 3, cdur=1, sdur=1)
            if mode == 'timeout':
                par = sched('P', [inner, sib], timeout=x, sdt=sdtP)
            elif mode == 'critical':
                inner2 = inner
                killer = atom('k', x, critical=True, outcome='raise')
                par = sched('P', [inner2, sib, killer], sdt=sdtP)
            else:
                inner['forever'] = True
                last = atom('k', x)
                sib['forever'] = True
                sib['dur'] = None
                par = sched('P', [inner, sib, last], sdt=sdtP)
            top = sched('G', [par, atom('g', 1)], timeout=tG, sdt=2)
            yield assign_hashes(top)


def phase_sweep_windowed(thorough=False):
    """same idea with the nested scheduler waiting for a slot of its parent's
    window (not started) or holding one"""
    half = [x / 2 for x in range(0, 9)]
    for x, win, cdur, sdur, sdtN in itertools.product(half, [1, 2], [0, 1], [0, 1], [0, 1, None]):
        inner = sched('N', [atom('a', 2, cdur=cdur, sdur=sdur), atom('b', 1)],
                      edges=[('b', 'a')], sdt=sdtN, critical=True, window=1)
        par = sched('P', [atom('q', 1.5, cdur=cdur), inner, atom('r', 1, sdur=sdur)],
                    timeout=x, window=win, sdt=1)
        par['jobs'][0]['hash'] = 0
        par['jobs'][1]['hash'] = 1
        par['jobs'][2]['hash'] = 2
        yield assign_hashes(sched('G', [par], sdt=2))


def flag_cube(thorough=False):
    """
    every combination of critical flags along a chain of up to three
    schedulers x job critical x outcome x timeout position (none, before /
    exactly at / after the last completion, 0) at the innermost level.
    """
    outcomes = ['return', 'raise']
    for depth in (1, 2, 3):
        for flags in itertools.product([False, True], repeat=depth):
            for pure in ((False, True) if depth == 1 else (False,)):
                for jcrit, outcome, other_out in itertools.product([False, True], outcomes, outcomes):
                    for timeout in (None, 0, 1, 2, 2.5, 3):
                        for post in ((0, 2) if thorough else (0,)):
                            inner_jobs = [atom('x', 2, critical=jcrit, outcome=outcome, post=post),
                                          atom('y', 1, critical=True, outcome=other_out if thorough else 'return'),
                                          atom('z', 2, critical=False, outcome=other_out)]
                            node = sched('S%d' % depth, inner_jobs, edges=[('z', 'y')] if post else [],
                                         timeout=timeout, critical=flags[-1])
                            for lvl in range(depth - 1, 0, -1):
                                node = sched('S%d' % lvl, [node, atom('w%d' % lvl, 3, critical=False)],
                                             critical=flags[lvl - 1])
                            node['pure'] = pure
                            yield assign_hashes(node)


def window_sweep(thorough=False):
    """k jobs, window 1..k, every subset of <= 3 raisers, three topologies"""
    ks = [2, 3, 4, 5] if thorough else [2, 3, 4]
    for k in ks:
        for win in range(1, k + 1):
            ids = ['j%d' % i for i in range(k)]
            topologies = {
                'flat': [],
                'chain': [(ids[i + 1], ids[i]) for i in range(k - 1)],
                'fan': [(ids[i], ids[0]) for i in range(1, k)],
            }
            for tname, edges in topologies.items():
                for nr in range(0, min(3, k) + 1):
                    for raisers in itertools.combinations(range(k), nr):
                        for durs in ((1,) * k, tuple(1 + (i % 2) for i in range(k))):
                            jobs = [atom(ids[i], durs[i], outcome='raise' if i in raisers else 'return',
                                         post=i % 3) for i in range(k)]
                            yield assign_hashes(sched('W', jobs, edges=edges, window=win))


def tie_sweep(thorough=False):
    """joins whose requirements complete in the same instant, 0..3 loop
    iterations apart, in every order; plus a forever job ending with them"""
    posts = [0, 1, 2, 3]
    for pa, pb, pc in itertools.product(posts, posts, posts if thorough else [0, 2]):
        for fdur in (None, 1, 2):
            for win in (None, 1, 2):
                jobs = [atom('a', 1, post=pa), atom('b', 1, post=pb), atom('c', 1, post=pc),
                        atom('j', 1), atom('k', 0), atom('f', fdur, forever=True, post=pa)]
                edges = [('j', 'a'), ('j', 'b'), ('j', 'c'), ('k', 'a'), ('k', 'b')]
                yield assign_hashes(sched('T', jobs, edges=edges, window=win))


def external_cancel_sweep(thorough=False):
    """the caller of co_run() gives up (asyncio.wait_for) while the run is in
    each phase, at depth 1 and 2: nothing the run started may outlive it"""
    half = [x / 2 for x in range(0, 11)]
    for x, tP, cdur, sdur, sdtN, pure in itertools.product(half, [None, 1.5, 3], [0, 1], [0, 1], [0, 1, None],
                                                           [False, True]):
        inner = sched('N', [atom('a', 2, cdur=cdur, sdur=sdur, post=1),
                            atom('b', 1, outcome='raise'),
                            atom('c', 1.5, coro=True)],
                      edges=[('c', 'b')], sdt=sdtN, critical=True)
        top = sched('P', [inner, atom('p', 3, cdur=1, sdur=1), atom('f', None, forever=True, ticker=1)],
                    timeout=tP, sdt=1)
        top['entry'] = dict(wait_for=x)
        top['pure'] = pure
        yield assign_hashes(top)


def gap_sweep(thorough=False):
    """a non-critical raiser A and a returning job B end in the same instant,
    0..6 event-loop iterations apart, in both orders; C and D require both, E
    requires A only; the window is kept saturated by fillers so that whatever
    is started has to queue.  (Any suspension inside one iteration of the
    scheduler's main loop - e.g. asyncio.gather() on finished tasks before
    Python 3.12 - shows here as a double start.)"""
    gaps = range(0, 7)
    for pa, pb in itertools.product(gaps, gaps):
        for win in (1, 2, 3):
            # a timeout that is never reached must change nothing (but makes
            # the library take its deadline-aware paths)
            for tmo, verbose in ((None, False), (50, False), (None, True)):
                jobs = [atom('A', 1, post=pa, outcome='raise', critical=False),
                        atom('B', 1, post=pb),
                        atom('C', 1), atom('D', 2.5, coro=True), atom('E', 1),
                        atom('F1', 2.5), atom('F2', 3), atom('F3', 1, post=(pa + pb) % 4),
                        atom('G', 0.5), atom('H', 0.5)]
                edges = [('C', 'A'), ('C', 'B'), ('D', 'A'), ('D', 'B'), ('E', 'A'), ('G', 'D'), ('H', 'C')]
                yield assign_hashes(sched('W', jobs, edges=edges, window=win, timeout=tmo, verbose=verbose))


def fanout_sweep(thorough=False):
    """one completion (A) makes K >= 16 jobs startable at once while a second
    requirement (B) of a few of them ends 0..6 event-loop iterations later;
    the window is full, so whatever is started has to queue.  (A main loop that
    lets go of the event loop while it creates a large batch of tasks shows
    here as a double start.)"""
    fans = (15, 16, 17, 33, 48) if thorough else (16, 33)
    for fan, gap, win in itertools.product(fans, range(0, 7), (1, 3)):
        for pa in ((0, 2) if thorough else (0,)):
            jobs = [atom('A', 1, post=pa), atom('B', 1, post=pa + gap)]
            edges = []
            for i in range(fan):
                jobs.append(atom('L%d' % i, 2))
                edges.append(('L%d' % i, 'A'))
            for i in range(4):
                jobs.append(atom('J%d' % i, 1, coro=(i == 3)))
                edges += [('J%d' % i, 'A'), ('J%d' % i, 'B')]
            yield assign_hashes(sched('W', jobs, edges=edges, window=win))


SWEEPS = {
    'fanout': fanout_sweep,
    'gap': gap_sweep,
    'extcancel': external_cancel_sweep,
    'phase': phase_sweep,
    'phasew': phase_sweep_windowed,
    'cube': flag_cube,
    'window': window_sweep,
    'tie': tie_sweep,
}


def permute_hashes(spec, rng):
    """a different iteration order of every job set, same scenario; half of
    the variants also get a history of invisible synchronous-API calls"""
    spec = copy.deepcopy(spec)
    if rng.random() < 0.5:
        add_history(rng, spec)
    for node, _, _ in walk(spec):
        if is_sched(node):
            hs = list(range(len(node['jobs'])))
            rng.shuffle(hs)
            for j, h in zip(node['jobs'], hs):
                j['hash'] = h
    return spec
