"""
vmon - runtime monitoring of asynciojobs (see /verif/DESIGN.md)

The library under test is imported from the directory named by the
environment variable VERIF_REPO (default /repo), always from its current
working tree, never from a copy.
"""
import os
import sys

REPO = os.environ.get("VERIF_REPO", "/repo")
VERIF = os.path.dirname(os.path.dirname(os.path.abspath(__file__)))


def use_repo():
    """make `import asynciojobs` resolve to REPO's working tree"""
    if sys.path[0] != REPO:
        sys.path.insert(0, REPO)
    import asynciojobs                                  # noqa
    got = os.path.dirname(os.path.dirname(os.path.abspath(asynciojobs.__file__)))
    if os.path.realpath(got) != os.path.realpath(REPO):
        raise RuntimeError("asynciojobs imported from %s, expected %s" % (got, REPO))
    return asynciojobs
