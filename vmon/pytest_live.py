"""pytest plugin: run somebody else's tests with the live monitors on
(python -m pytest -p vmon.pytest_live ...); the report goes to $VMON_LIVE_REPORT"""
import os

from . import live


def pytest_configure(config):
    live.install()


def pytest_sessionfinish(session, exitstatus):
    path = os.environ.get('VMON_LIVE_REPORT')
    if path:
        live.write_report(path)
