"""
Instrumented jobs and schedulers, scenario builder and executor (DESIGN.md 3.2).

Observation happens at the library's boundary: verification-side subclasses
of AbstractJob / Job / Scheduler / PureScheduler log body-entry, body-exit,
cancellation and shutdown events.  Nothing here reads scheduler internals
(_task, pending, nb_jobs_done, the window queue, _did_shutdown); the one
exception is the back-reference task._job that the library installs itself,
used only to name the job a task-level cancel request belongs to.
"""
import asyncio
import contextlib
import io
import logging
import warnings

from . import use_repo
from .vloop import VLoop, Wedged, Horizon, patched_clock

use_repo()
from asynciojobs import Scheduler, PureScheduler, Job, AbstractJob, PrintJob   # noqa: E402

logging.getLogger("asyncio").setLevel(logging.CRITICAL + 1)
warnings.filterwarnings("ignore", category=RuntimeWarning)
warnings.filterwarnings("ignore", category=DeprecationWarning)


class Boom(Exception):
    """the exception raised by instrumented jobs; one unique object per raise"""


class CustomError(Exception):
    """an exception that cannot be re-created from its args"""

    def __init__(self, who, detail):
        super().__init__("custom failure of %s" % who)
        self.who, self.detail = who, detail


class Sealed(Exception):
    """an exception whose instances refuse new attributes (think of a frozen
    dataclass): whoever wants to annotate it has to cope"""

    def __setattr__(self, name, value):
        raise AttributeError("instances of Sealed are read-only (%s)" % name)


class Plain(Exception):
    """an exception class with value equality and therefore no hash (what a
    plain @dataclass exception is): it cannot be put in a set or a dict"""

    def __eq__(self, other):
        return type(other) is type(self) and other.args == self.args

    __hash__ = None


class Fatal(BaseException):
    """an application-defined BaseException: asyncio stores it in the task like
    any other exception (only KeyboardInterrupt / SystemExit are special)"""


def make_exception(kind, who, trace=None):
    if kind == 'base':
        return Fatal(who)
    if kind == 'sealed':
        return Sealed(who)
    if kind == 'unhashable':
        return Plain(who)
    if kind == 'braces':
        return KeyError({'job': who, 'why': '{0} {} {unknown}'})   # str() and repr() full of format fields
    if kind == 'shared' and trace is not None:
        # one pre-built instance for the whole program (a sentinel), raised by
        # whoever needs it, possibly seen before by code that is still running
        return trace.shared_exception
    if kind == 'empty':
        return Boom()                                   # str(exc) == ''
    if kind == 'multiline':
        return Boom("%s failed\nsecond line\n" % who)
    if kind == 'timeout':
        return TimeoutError("job %s gave up" % who)     # a job's own TimeoutError is an ordinary exception
    if kind == 'key':
        return KeyError(who)
    if kind == 'custom':
        return CustomError(who, detail=object())
    if kind == 'group':
        return ExceptionGroup("several things went wrong in %s" % who, [Boom(who), KeyError(who)])
    if kind == 'queue':
        return asyncio.QueueEmpty()                     # a job's own: the library uses queues itself
    if kind == 'runtime':
        return RuntimeError("%s cannot go on" % who)    # asyncio raises RuntimeError for reasons of its own
    if kind == 'notimpl':
        return NotImplementedError(who)
    return Boom(who)


class Trace:
    def __init__(self, loop):
        self.events = []
        self.loop = loop
        self.shared_exception = Boom("the program's one and only sentinel")

    def log(self, kind, who, **extra):
        event = dict(seq=len(self.events), t=self.loop.time(),
                     it=self.loop.iterations, kind=kind, who=who)
        event.update(extra)
        self.events.append(event)
        return event


class HashMixin:
    """harness-chosen hash: the iteration order of every set of jobs in the
    library becomes a generated parameter"""
    _vh = 0

    def __hash__(self):
        return self._vh

    def __eq__(self, other):
        return self is other


class Result(object):
    """what a job body returns: a unique object"""
    __slots__ = ('who',)

    def __init__(self, who):
        self.who = who

    def __repr__(self):
        return "<result of %s>" % self.who


def make_result(kind, who):
    """what a body returns: usually a unique object, sometimes a falsy value
    (the library must not confuse "returned something falsy" with "not done")"""
    if kind == 'none':
        return None
    if kind == 'false':
        return False
    if kind == 'zero':
        return 0
    if kind == 'empty':
        return []
    if kind == 'future':
        # an awaitable handed back as a value (e.g. the handle of something the
        # job spawned): it is a result like any other, not something to await
        fut = asyncio.get_running_loop().create_future()
        fut.set_result(('inner result of', who))
        return fut
    if kind == 'pending':
        # the same, not completed yet (and nobody ever will): still only a value
        return asyncio.get_running_loop().create_future()
    if kind == 'excval':
        return Boom("returned, not raised, by %s" % who)
    return Result(who)


async def _slow_close(close, interrupted):
    """an operation that never completes and needs `close` seconds to clean
    up when it is interrupted"""
    try:
        await asyncio.get_running_loop().create_future()
    except asyncio.CancelledError:
        interrupted()
        raise
    finally:
        await asyncio.sleep(close)


def _sub(awaitable):
    """a task of the job's own, marked so that the harness does not mistake
    what the job does to it for a request concerning a job"""
    task = asyncio.ensure_future(awaitable)
    task._vsub = True
    return task


async def _work(spec, dur):
    """the main delay of a body, possibly spent in tasks of the job's own"""
    sub = spec.get('sub')
    if sub == 'gather':
        await asyncio.gather(_sub(asyncio.sleep(dur)), _sub(asyncio.sleep(dur / 2)))
    elif sub == 'taskgroup':
        async with asyncio.TaskGroup() as group:
            for d in (dur, dur / 2):
                group.create_task(asyncio.sleep(d))._vsub = True
    elif sub == 'shield':
        inner = _sub(asyncio.sleep(dur))
        try:
            await asyncio.shield(inner)
        except asyncio.CancelledError:
            # shielded from the cancellation, hence ours to stop before leaving
            inner.cancel()
            while not inner.done():
                try:
                    await asyncio.wait([inner])
                except asyncio.CancelledError:
                    pass
            raise
    else:
        await asyncio.sleep(dur)


async def body(trace, spec, who):
    trace.log('enter', who)
    noted = []

    def interrupted():
        # the inner operation was interrupted: by the job's own timeout, or by
        # a cancel request from outside (VTask.cancel keeps count of those) -
        # the latter is the moment the cancellation reached this body
        if getattr(asyncio.current_task(), '_vext', 0) and not noted:
            noted.append(True)
            trace.log('cancel', who)
    try:
        if spec.get('touch'):
            # the job meets the program's sentinel exception on its way (raises
            # and handles it itself) and goes on: the instance now remembers this
            # very frame in its traceback
            try:
                raise trace.shared_exception
            except Boom:
                pass
        for _ in range(spec.get('pre', 0)):
            await asyncio.sleep(0)
        dur = spec.get('dur', 0)
        itmo = spec.get('itmo')
        if itmo:
            # the job guards an inner operation with a timeout OF ITS OWN
            # (asyncio.timeout() cancels the job's task from inside), absorbs
            # that TimeoutError and carries on; a never-ending job polls so
            # for ever.  While the interrupted operation cleans up the task has
            # a cancellation request of its own pending: a cancel() sent by the
            # scheduler in that lapse must still get through.
            rounds = 0
            while dur is None or rounds < itmo.get('rounds', 1):
                rounds += 1
                try:
                    async with asyncio.timeout(itmo['after']):
                        await _slow_close(itmo['close'], interrupted)
                except TimeoutError:
                    pass
        if dur is None:
            ticker = spec.get('ticker')
            if ticker:
                while True:
                    await asyncio.sleep(ticker)
            else:
                await asyncio.get_running_loop().create_future()
        elif dur > 0:
            await _work(spec, dur)
        for _ in range(spec.get('post', 0)):
            await asyncio.sleep(0)
    except asyncio.CancelledError:
        if not noted:
            trace.log('cancel', who)
        cut_short = True
        try:
            cdur = spec.get('cdur', 0)
            if cdur:
                await asyncio.sleep(cdur)
            for _ in range(spec.get('cyields', 0)):
                await asyncio.sleep(0)
            cut_short = False
        finally:
            trace.log('cancel_done', who, interrupted=cut_short)
        raise
    if spec.get('outcome') == 'raise':
        exc = make_exception(spec.get('exc'), who, trace)
        trace.log('raise', who, exc=exc)
        raise exc
    val = make_result(spec.get('retval'), who)
    trace.log('return', who, val=val)
    return val


async def sd_body(trace, spec, who):
    trace.log('sd_enter', who)
    try:
        sdur = spec.get('sdur', 0)
        if sdur is None:
            await asyncio.get_running_loop().create_future()
        elif sdur > 0:
            await asyncio.sleep(sdur)
        for _ in range(spec.get('syields', 0)):
            await asyncio.sleep(0)
    except asyncio.CancelledError:
        trace.log('sd_cancel', who)
        if spec.get('sswallow'):
            # a handler that honours the cancellation by stopping at once, but
            # returns normally instead of re-raising
            return None
        raise
    trace.log('sd_return', who)


class VJob(HashMixin, AbstractJob):
    def __init__(self, trace, spec, **extra):
        self.trace = trace
        self.spec = spec
        self.vid = spec['id']
        self._vh = spec.get('hash', 0)
        AbstractJob.__init__(self, forever=spec.get('forever', False),
                             critical=spec.get('critical', True),
                             label=spec.get('label', spec['id']), **extra)

    async def co_run(self):
        return await body(self.trace, self.spec, self.vid)

    async def co_shutdown(self):
        return await sd_body(self.trace, self.spec, self.vid)

    def details(self):
        return "details of %s" % self.vid


class VCoroJob(HashMixin, Job):
    """coroutine-based flavour: asynciojobs.Job around coroutine objects"""

    def __init__(self, trace, spec, **extra):
        self.trace = trace
        self.spec = spec
        self.vid = spec['id']
        self._vh = spec.get('hash', 0)
        Job.__init__(self, body(trace, spec, self.vid),
                     coshutdown=sd_body(trace, spec, self.vid),
                     forever=spec.get('forever', False),
                     critical=spec.get('critical', True),
                     label=spec.get('label', spec['id']), **extra)


class VPrintJob(HashMixin, PrintJob):
    """the library's own PrintJob (prints, optionally sleeps; cannot fail),
    observed from a subclass; exists in three message flavours"""

    def __init__(self, trace, spec):
        self.trace = trace
        self.spec = spec
        self.vid = spec['id']
        self._vh = spec.get('hash', 0)
        messages = {'none': (), 'int': (3, 'left'), 'str': ('message of %s' % spec['id'], 'more')}[spec.get('print', 'str')]
        PrintJob.__init__(self, *messages, sleep=spec.get('dur') or None, banner=spec.get('banner'),
                          label=spec.get('label', spec['id']))
        self.forever = spec.get('forever', False)
        self.critical = spec.get('critical', True)

    async def co_run(self):
        self.trace.log('enter', self.vid)
        try:
            value = await PrintJob.co_run(self)
        except asyncio.CancelledError:
            self.trace.log('cancel', self.vid)
            self.trace.log('cancel_done', self.vid, interrupted=False)
            raise
        self.trace.log('return', self.vid, val=value)
        return value

    async def co_shutdown(self):
        self.trace.log('sd_enter', self.vid)
        await PrintJob.co_shutdown(self)
        self.trace.log('sd_return', self.vid)


class SchedMixin(HashMixin):
    def __init__(self, *members, vspec=None, vtrace=None, **kwds):
        # identity (and hash) first: the constructors may already insert this
        # object into sets (scheduler=..., required=...)
        self.trace = vtrace
        self.spec = vspec
        self.vid = vspec['id']
        self._vh = vspec.get('hash', 0)
        super().__init__(*members, **kwds)

    async def co_run(self):
        self.trace.log('run_enter', self.vid)
        try:
            value = await super().co_run()
        except asyncio.CancelledError:
            self.trace.log('run_cancel', self.vid)
            raise
        except BaseException as exc:
            self.trace.log('run_raise', self.vid, exc=exc,
                           ft=self.failed_time_out(), fc=self.failed_critical(),
                           why=self.why())
            raise
        self.trace.log('run_return', self.vid, val=value,
                       ft=self.failed_time_out(), fc=self.failed_critical(),
                       why=self.why())
        return value

    async def co_shutdown(self):
        self.trace.log('shut_enter', self.vid)
        try:
            value = await super().co_shutdown()
        except asyncio.CancelledError:
            self.trace.log('shut_cancel', self.vid)
            raise
        self.trace.log('shut_return', self.vid, val=value)
        return value


class VScheduler(SchedMixin, Scheduler):
    pass


class VPureScheduler(SchedMixin, PureScheduler):
    pass


def is_sched_spec(node):
    return 'jobs' in node


def _topo(spec):
    req = {j['id']: set() for j in spec['jobs']}
    for a, b in spec.get('edges', []):
        req[a].add(b)
    done, order = set(), []
    while len(order) < len(spec['jobs']):
        progress = False
        for j in spec['jobs']:
            if j['id'] not in done and req[j['id']] <= done:
                done.add(j['id'])
                order.append(j)
                progress = True
        if not progress:
            raise ValueError("cyclic spec")
    return order, req


def make_atom(trace, jspec, **extra):
    if jspec.get('print'):
        job = VPrintJob(trace, jspec)
        if extra.get('required') is not None:
            job.requires(extra['required'])
        if extra.get('scheduler') is not None:
            extra['scheduler'].add(job)
        return job
    if jspec.get('coro'):
        return VCoroJob(trace, jspec, **extra)
    return VJob(trace, jspec, **extra)


def make_sched(trace, spec, top, members=(), **extra):
    kwds = dict(jobs_window=spec.get('window'), timeout=spec.get('timeout'),
                shutdown_timeout=spec.get('sdt', 1),
                verbose=spec.get('verbose', False))
    if spec.get('watch'):
        from asynciojobs import Watch
        kwds['watch'] = Watch()
    if top and spec.get('pure'):
        sched = VPureScheduler(*members, vspec=spec, vtrace=trace, **kwds)
    else:
        sched = VScheduler(*members, vspec=spec, vtrace=trace, critical=spec.get('critical', True),
                           forever=spec.get('forever', False),
                           label=spec.get('label', spec['id']), **kwds, **extra)
    return sched


def populate(trace, spec, sched, registry):
    """fill an existing, empty scheduler object the way spec['style'] says:
    'required_arg': every member is created with required= / scheduler=
    constructor arguments (a single requirement is passed bare, several as a
    list, tuple or set), nested schedulers being created empty first and
    filled afterwards; otherwise members are built first and inserted with
    add() / update(), requirements with requires()"""
    if spec.get('style') == 'required_arg':
        order, req = _topo(spec)
        for k, jspec in enumerate(order):
            reqs = [registry[b] for b in sorted(req[jspec['id']])]
            if not reqs:
                arg = None
            elif len(reqs) == 1:
                arg = reqs[0]
            else:
                arg = [list, tuple, set][k % 3](reqs)
            if is_sched_spec(jspec):
                job = make_sched(trace, jspec, False, required=arg, scheduler=sched)
            else:
                job = make_atom(trace, jspec, required=arg, scheduler=sched)
            registry[jspec['id']] = job
        for jspec in order:
            if is_sched_spec(jspec):
                populate(trace, jspec, registry[jspec['id']], registry)
        return
    members = []
    for jspec in spec['jobs']:
        job = build_node(trace, jspec, False, registry) if is_sched_spec(jspec) else make_atom(trace, jspec)
        registry[jspec['id']] = job
        members.append(job)
    for k, job in enumerate(members):
        if k % 2:
            sched.add(job)
        else:
            sched.update([job, None])
    for a, b in spec.get('edges', []):
        registry[a].requires(registry[b])


def build_node(trace, spec, top, registry):
    if spec.get('style') in ('incremental', 'required_arg'):
        sched = make_sched(trace, spec, top)
        registry[spec['id']] = sched
        populate(trace, spec, sched, registry)
        return sched
    members = []
    for jspec in spec['jobs']:
        job = build_node(trace, jspec, False, registry) if is_sched_spec(jspec) else make_atom(trace, jspec)
        registry[jspec['id']] = job
        members.append(job)
    sched = make_sched(trace, spec, top, members)
    registry[spec['id']] = sched
    for a, b in spec.get('edges', []):
        registry[a].requires(registry[b])
    return sched


def build(trace, spec, top=True, registry=None):
    """
    scheduler spec: {id, jobs:[...], edges:[[a, b] ...] (a requires b),
    window, timeout, sdt, critical, forever, pure (top only), verbose, hash,
    style (None: everything given to the constructors; 'incremental';
    'required_arg')}
    atom spec: {id, critical, forever, coro, print, pre, dur (None=never),
    ticker, post, outcome, exc, retval, cdur, cyields, sdur (None=never),
    syields, hash}
    """
    if registry is None:
        registry = {}
    sched = build_node(trace, spec, top, registry)
    if top:
        return sched, registry
    return sched


def inspect_everything(top, reg, n=0):
    """read-only use of the synchronous API: must leave no trace on a run
    (before it, in the middle of it, or on what is read after it); `n` varies
    what is looked at last from one sweep to the next"""
    buf = io.StringIO()
    with contextlib.redirect_stdout(buf):
        scheds = [j for j in reg.values() if hasattr(j, 'jobs')]
        for sched in scheds:
            members = list(sched.jobs)
            list(sched.entry_jobs())
            list(sched.exit_jobs())
            list(sched.exit_jobs(discard_forever=False))
            for job in members[:3]:
                list(sched.successors(job))
                sched.predecessors(job)
                sched.successors_downstream(job)
                sched.predecessors_upstream(job)
            # questions about jobs that live elsewhere in the tree (documented
            # answer: nothing), and about several jobs at once
            foreign = [j for j in reg.values() if j is not sched and j not in sched.jobs
                       and hasattr(j, 'required')][:3]
            for job in foreign:
                sched.predecessors(job)
                list(sched.successors(job))
                sched.predecessors_upstream(job)
                sched.successors_downstream(job)
            if len(members) >= 2:
                sched.predecessors_upstream(*members[-2:])
                sched.successors_downstream(*members[-2:])
            sched.check_cycles()
            sched.stats()
            repr(sched)
            len(sched)
        list(top.iterate_jobs(scan_schedulers=True))
        try:
            top.list()
            top.list_safe()
            top.debrief()
        except Exception:                               # noqa  listing is judged by C15/C20, not here
            pass
        try:
            top.dot_format()
        except ValueError:
            pass                                        # known finding D7 (empty nested scheduler endpoints)
        for job in reg.values():
            repr(job)
        # one level of the tree looked at on its own (listings number the jobs
        # from that level down), and a topological scan abandoned half-way
        one = scheds[n % len(scheds)]
        try:
            [one.list, one.list_safe, one.debrief][(n // len(scheds)) % 3]()
        except Exception:                               # noqa  listing is judged by C15/C20, not here
            pass
        other = scheds[(n + 1) % len(scheds)]
        try:
            next(iter(other.topological_order()), None)
        except Exception:                               # noqa
            pass


def apply_history(trace, spec, top, reg):
    """
    pre-run history (spec['history']['pre']): inspections and *neutral* edit
    pairs - a requirement added then removed again, a job added then removed
    again - with inspections in between.  The graph that is finally run is the
    one the spec describes; the library must not remember anything else.
    """
    hist = spec.get('history') or {}
    for k, op in enumerate(hist.get('pre', [])):
        if op[0] == 'inspect':
            inspect_everything(top, reg, k)
        elif op[0] == 'edge':
            _, a, b = op
            reg[a].requires(reg[b])
            inspect_everything(top, reg)
            reg[a].requires(reg[b], remove=True)
        elif op[0] == 'ghost':
            _, sid, rid = op
            ghost = VJob(trace, dict(id='ghost%d' % k, dur=1, critical=False, hash=97 + k))
            if rid is not None:
                ghost.requires(reg[rid])
            reg[sid].add(ghost)
            inspect_everything(top, reg)
            reg[sid].remove(ghost)
        elif op[0] == 'sanitize':
            buf = io.StringIO()
            with contextlib.redirect_stdout(buf):
                top.sanitize()


def job_of_task(task, reg):
    """
    The job a task was created for.  The library attaches the job to its task
    (today as task._job); to survive a renaming of that attribute the lookup is
    by value, not by name: any value attached to the task (VTask records what is
    set on it) that is one of the scenario's job objects.  Tasks the library
    attaches nothing to (e.g. the co_shutdown() tasks) belong to no job.
    """
    known = getattr(task, '_vmon_job', None)
    if known is not None:
        return known
    ours = {id(j): j for j in reg.values()}
    found = None
    for value in getattr(task, '_vattached', ()):
        if id(value) in ours:
            found = value
            break
    if found is not None:
        task._vmon_job = found
    return found


class Execution:
    """everything one execution produced"""
    verdict = None          # ('return', value) | ('raise', exc) | ('wedged', msg) | ('horizon', msg)
    runon_error = None


def execute(spec, loop_seed=None, horizon=None, quiescent=None, run_on=1000.0,
            explicit_shutdown=True, max_iter=400_000):
    """
    Run one scenario on a fresh virtual-time loop.

    quiescent: optional callable(trace, registry, loop, next_time) invoked at
    every quiescent point of the loop during the top-level run.
    """
    from .spec import horizon_of
    exe = Execution()
    if horizon is None:
        horizon = horizon_of(spec)
    loop = VLoop(seed=loop_seed, horizon=horizon, max_iter=max_iter)
    trace = Trace(loop)
    exe.trace, exe.loop, exe.spec, exe.loop_seed = trace, loop, spec, loop_seed
    asyncio.set_event_loop(loop)
    out = io.StringIO()
    # should the library ask for a brand-new event loop in the middle of an
    # execution (it has no reason to: one is current), it gets this one again,
    # so that whatever it does next still happens in virtual time, on the record
    real_new_loop = asyncio.new_event_loop
    exe.loops_requested = 0

    def same_loop():
        exe.loops_requested += 1
        return loop
    asyncio.new_event_loop = same_loop
    try:
        with patched_clock(loop), contextlib.redirect_stdout(out):
            top, reg = build(trace, spec)
            exe.top, exe.reg = top, reg
            apply_history(trace, spec, top, reg)
            exe.required_before = {vid: set(r.vid for r in job.required)
                                   for vid, job in reg.items() if hasattr(job, 'required')}

            def on_cancel(task, accepted):
                if getattr(task, '_vsub', False):
                    return                              # a job dealing with a task of its own
                job = job_of_task(task, reg)
                vid = getattr(job, 'vid', None)
                if vid is not None and accepted:
                    trace.log('task_cancel', vid)
                elif accepted:
                    loop.unattributed_cancels = getattr(loop, 'unattributed_cancels', 0) + 1
            loop.on_task_cancel = on_cancel
            if quiescent is not None:
                loop.on_quiescent = lambda l, nxt: quiescent(trace, reg, l, nxt)
            try:
                entry = spec.get('entry')
                if isinstance(entry, dict) and 'wait_for' in entry:
                    # the caller gives up: co_run() is cancelled from outside
                    value = loop.run_until_complete(asyncio.wait_for(top.co_run(), entry['wait_for']))
                elif entry == 'co_run':
                    value = loop.run_until_complete(top.co_run())
                else:
                    value = top.run()
                exe.verdict = ('return', value)
            except Wedged as exc:
                exe.verdict = ('wedged', str(exc))
            except Horizon as exc:
                exe.verdict = ('horizon', str(exc))
            except BaseException as exc:                # noqa
                exe.verdict = ('raise', exc)
            loop.on_quiescent = None
            trace.log('top_done', spec['id'])
            exe.n_at_return = len(trace.events)
            exe.t_return = loop.time()
            exe.tasks_at_return = len(loop.created_tasks)
            exe.pending_at_return = [t for t in loop.created_tasks if not t.done()]
            exe.terminated = exe.verdict[0] in ('return', 'raise')
            exe.required_after = {vid: set(getattr(r, 'vid', '?') for r in job.required)
                                  for vid, job in reg.items() if hasattr(job, 'required')}
            # diagnosis read again after the top-level run
            exe.top_diag = (top.failed_time_out(), top.failed_critical(), top.why())
            # ---- let the loop run on: nothing may happen (C11)
            exe.n_after_runon = exe.n_at_return
            exe.tasks_after_runon = exe.tasks_at_return
            if run_on and exe.terminated:
                loop.horizon = loop.time() + run_on + 10
                loop.iterations = 0

                async def idle(delay):
                    await asyncio.sleep(delay)
                try:
                    loop.run_until_complete(idle(run_on))
                except (Wedged, Horizon) as exc:
                    exe.runon_error = exc
                exe.n_after_runon = len(trace.events)
                # the idle task itself is one task
                exe.tasks_after_runon = len(loop.created_tasks) - 1
                # ---- a later explicit shutdown sends nothing more (C13)
                exe.explicit_shutdown = None
                if explicit_shutdown:
                    trace.log('explicit_shutdown', spec['id'])
                    loop.horizon = loop.time() + 1000
                    loop.iterations = 0
                    try:
                        if len(spec['jobs']) % 2:
                            # the synchronous wrapper
                            exe.explicit_shutdown = ('return', top.shutdown())
                        else:
                            exe.explicit_shutdown = ('return', loop.run_until_complete(top.co_shutdown()))
                    except (Wedged, Horizon) as exc:
                        exe.explicit_shutdown = ('stuck', str(exc))
                    except BaseException as exc:        # noqa
                        exe.explicit_shutdown = ('raise', exc)
            exe.n_final = len(trace.events)
            if (spec.get('history') or {}).get('post'):
                # read-only queries after the run must not change what the jobs report
                inspect_everything(top, reg)
            # ---- final readings of the inspection API
            final = {}
            for vid, job in reg.items():
                if vid == spec['id'] or not hasattr(job, 'is_done'):
                    continue
                rec = dict(idle=job.is_idle(), scheduled=job.is_scheduled(),
                           running=job.is_running(), done=job.is_done())
                try:
                    rec['exc'] = job.raised_exception()
                except BaseException as exc:            # noqa
                    rec['exc_error'] = exc
                try:
                    rec['result'] = job.result()
                except BaseException as exc:            # noqa
                    rec['result_error'] = exc
                final[vid] = rec
            exe.final = final
        exe.stdout = out.getvalue()
    finally:
        try:
            loop.on_quiescent = None
            loop.on_task_cancel = None
            loop.horizon = float('inf')
            loop.iterations = 0
            loop.max_iter = 200_000
            pend = [t for t in loop.created_tasks if not t.done()]
            for task in pend:
                task.cancel()
            if pend:
                async def fin():
                    await asyncio.wait(pend, timeout=50)
                try:
                    loop.run_until_complete(fin())
                except BaseException:                   # noqa
                    pass
        finally:
            asyncio.new_event_loop = real_new_loop
            asyncio.set_event_loop(None)
            # coroutine objects of coroutine-based jobs that never ran
            for job in getattr(exe, 'reg', {}).values():
                for name in ('corun', 'coshutdown'):
                    coro = getattr(job, name, None)
                    if coro is not None and hasattr(coro, 'close'):
                        try:
                            coro.close()
                        except BaseException:           # noqa
                            pass
            try:
                loop.close()
            except BaseException:                       # noqa
                pass
    return exe
