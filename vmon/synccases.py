"""
Contract monitors with reference models for the synchronous API, C15-C19
(DESIGN.md 3.5, 4).  C20 lives in dotcases.py.

Each case function has the signature fn(prop, key, index, tier) -> Case and is
deterministic in (key, index, tier): the replay file only stores those.
The wrappers snapshot the public pre-state, call the real method, and compare
result and post-state with the model; they record and return, they never
raise inside the library.
"""
import collections
import contextlib
import io
import itertools
import random
import sys

from . import use_repo, REPO
from .monitors import Out
from .runners import Case
from . import refmodel as R

use_repo()
from asynciojobs import Scheduler, PureScheduler, AbstractJob, Sequence, PrintJob   # noqa: E402


class N(AbstractJob):
    def __init__(self, name, h=0, **kw):
        self.name = name
        self._h = h
        super().__init__(label=kw.pop('label', name), **kw)

    def __hash__(self):
        return self._h

    def __eq__(self, other):
        return self is other

    def __repr__(self):
        return self.name

    async def co_run(self):
        return self.name

    async def co_shutdown(self):
        return None


class NP(PrintJob):
    """the library's own PrintJob as a graph node; its messages go to print()
    as they are: they need not be strings, nor be there at all"""

    def __init__(self, name, h=0, messages=(), **kw):
        self.name = name
        self._h = h
        PrintJob.__init__(self, *messages, label=kw.pop('label', name), **kw)

    def __hash__(self):
        return self._h

    def __eq__(self, other):
        return self is other

    def __repr__(self):
        return self.name


class S(Scheduler):
    def __init__(self, name, h, *a, **kw):
        self.name = name
        self._h = h
        super().__init__(*a, label=kw.pop('label', name), **kw)

    def __hash__(self):
        return self._h

    def __eq__(self, other):
        return self is other

    def __repr__(self):
        return self.name


class P(PureScheduler):
    name = 'TOP'

    def __repr__(self):
        return self.name


# ------------------------------------------------------------------ logical step budget
class BudgetExceeded(Exception):
    pass


@contextlib.contextmanager
def line_budget(limit):
    """a deterministic bound on the work of library code: counts executed
    lines in frames of the library; exceeding the budget raises inside the
    library call (a non-terminating call becomes a violation, not a hang)"""
    state = [0]
    prefix = REPO

    def tracer(frame, event, arg):
        if not frame.f_code.co_filename.startswith(prefix):
            return None
        return local

    def local(frame, event, arg):
        if event == 'line':
            state[0] += 1
            if state[0] > limit:
                sys.settrace(None)
                raise BudgetExceeded("more than %d lines executed" % limit)
        return local
    old = sys.gettrace()
    sys.settrace(tracer)
    try:
        yield state
    finally:
        sys.settrace(old)


ODD_LABELS = [7, 3.5, (1, 2), 'zz', '', None, -1, 'a\nb']


def odd_labels(rng, jobs, p=0.3):
    """labels need not be strings (nor be there at all): some jobs get a
    number, a tuple, an empty string, None ..."""
    done = 0
    for j in jobs:
        if rng.random() < p:
            j.label = rng.choice(ODD_LABELS)
            done += 1
    return done


def names(jobs):
    return sorted(j.name for j in jobs)


def finish(prop, out, key, index, tier, case, fingerprint, sample=None, n=1):
    import hashlib
    fp = hashlib.md5(repr(fingerprint).encode()).hexdigest()[:16]
    n = sum(v for k, v in out.counters.items() if 'compared' in k or 'checked' in k or 'interpreted' in k) or 1
    return Case(out, fp, n, dict(case=case, key=key, index=index, tier=tier), sample)


def build_flat(req, cls, hashes, forever=(), nested=None, foreign=True):
    """one scheduler whose members are n0..nk with requirement map req;
    `nested` maps some indices to 'empty' / 'full': those members are nestable
    Scheduler objects (an empty one is falsy: len() == 0) instead of plain jobs"""
    nested = nested or {}
    jobs = {}
    for i in req:
        if i in nested:
            inner = [] if nested[i] == 'empty' else [N("inner%d" % i, 50 + i)]
            jobs[i] = S("n%d" % i, hashes[i], *inner, forever=(i in forever))
            jobs[i]._inner = inner
        else:
            jobs[i] = N("n%d" % i, hashes[i], forever=(i in forever))
    for a, bs in req.items():
        for b in bs:
            jobs[a].required.add(jobs[b])      # raw edge: self-loops allowed here on purpose
    for i in (nested if foreign else ()):
        # a job inside a nested member requiring a member of the enclosing
        # scheduler: not a requirement *between members*, queries must ignore it
        for inner_job in jobs[i]._inner:
            others = [k for k in req if k != i]
            if others:
                inner_job.required.add(jobs[others[(i * 7) % len(others)]])
    order = sorted(jobs, key=lambda i: hashes[i])
    if cls is P:
        sched = P(*[jobs[i] for i in order])
    else:
        sched = S("TOP", 0, *[jobs[i] for i in order])
    return sched, jobs


# ------------------------------------------------------------------ C15
def _topo_checks(out, sched, req_names, member_names, acyclic, where):
    """check_cycles / topological_order / list on one scheduler level"""
    out.count('check_cycles() calls compared')
    try:
        with line_budget(200_000):
            got = sched.check_cycles()
    except BudgetExceeded as exc:
        out.violation('check_cycles-no-termination', "%s: check_cycles(): %s" % (where, exc))
        return
    except BaseException as exc:                        # noqa
        out.violation('check_cycles-raised', "%s: check_cycles() raised %r" % (where, exc))
        return
    return got


def _own_level_order(out, sched, req_names, member_names, acyclic, where):
    try:
        with line_budget(200_000):
            order = [j.name for j in itertools.islice(sched.topological_order(), len(member_names) + 3)]
        raised = None
    except BudgetExceeded as exc:
        out.violation('topological_order-no-termination', "%s: %s" % (where, exc))
        return
    except BaseException as exc:                        # noqa
        order, raised = None, exc
    if acyclic:
        out.count('topological_order() on acyclic graphs')
        if raised is not None:
            out.violation('order-raised-on-dag', "%s: topological_order() raised %r on an acyclic graph" % (where, raised))
        elif not R.valid_topological_order(order, req_names, member_names):
            out.violation('order-invalid', "%s: topological_order() yielded %s for requirements %s"
                          % (where, order, {k: sorted(v) for k, v in req_names.items()}))
    else:
        out.count('topological_order() on cyclic graphs')
        if raised is None:
            out.violation('order-silent-on-cycle', "%s: topological_order() yielded %s without raising although "
                          "the graph %s is cyclic" % (where, order, {k: sorted(v) for k, v in req_names.items()}))


def _list_ids(out, sched, where):
    """list() numbers jobs in topological order: ids increase along requirements"""
    buf = io.StringIO()
    try:
        with contextlib.redirect_stdout(buf):
            sched.list()
    except BaseException as exc:                        # noqa
        out.violation('list-raised', "%s: list() raised %r on an acyclic tree" % (where, exc))
        return
    out.count('list() numberings checked')
    seen = {}
    for job in sched.iterate_jobs(scan_schedulers=True):
        if job is sched:
            continue
        sid = job.repr_id()
        try:
            num = int(sid)
        except ValueError:
            out.violation('list-id', "%s: %s has id %r after list()" % (where, job, sid))
            return
        if num in seen:
            out.violation('list-id-duplicate', "%s: %s and %s share id %s" % (where, job, seen[num], sid))
        seen[num] = job
        for r in job.required:
            if isinstance(r, AbstractJob) and r._sched_id is not None:
                pass
    for job in sched.iterate_jobs(scan_schedulers=True):
        if job is sched:
            continue
        for r in job.required:
            try:
                if int(r.repr_id()) >= int(job.repr_id()):
                    out.violation('list-order', "%s: %s (id %s) requires %s (id %s): ids do not follow the requirements"
                                  % (where, job, job.repr_id(), r, r.repr_id()))
            except ValueError:
                out.violation('list-id', "%s: requirement %s of %s has id %r" % (where, r, job, r.repr_id()))


def c15_space(tier):
    spaces = [(1, True), (2, True), (3, True), (4, False)]
    if tier == 'thorough':
        spaces += [(4, True), (5, False)]
    return spaces


def c15_exhaustive_size(tier):
    return sum(R.digraph_space(n, sl) for n, sl in c15_space(tier))


def c15_exhaustive(prop, key, index, tier):
    out = Out(prop)
    i = index
    for n, sl in c15_space(tier):
        size = R.digraph_space(n, sl)
        if i < size:
            break
        i -= size
    req = R.decode_digraph(n, i, sl)
    rng = random.Random(key)
    member_names = ["n%d" % k for k in range(n)]
    req_names = {"n%d" % a: {"n%d" % b for b in bs} for a, bs in req.items()}
    acyclic = R.is_acyclic(req_names)
    out.count('digraphs with %d nodes%s' % (n, ' (self-loops allowed)' if sl else ''))
    out.count('cyclic digraphs' if not acyclic else 'acyclic digraphs')
    for cls in (P, S):
        hashes = list(range(n))
        rng.shuffle(hashes)
        forever = {i for i in range(n) if rng.random() < 0.3}
        if forever:
            out.count('graphs with forever jobs')
        # some nodes are nested schedulers rather than plain jobs; an empty
        # one is falsy (len() == 0) and still a node like any other
        nested = {i: rng.choice(['empty', 'empty', 'full']) for i in range(n) if rng.random() < 0.25}
        if any(v == 'empty' for v in nested.values()):
            out.count('graphs in which a node is an empty nested scheduler')
            if any(nested.get(b) == 'empty' for bs in req.values() for b in bs):
                out.count('  ... that some node requires')
        sched, jobs = build_flat(req, cls, hashes, forever=forever, nested=nested, foreign=False)
        if rng.random() < 0.25:
            sched.verbose = True
        if rng.random() < 0.3 and odd_labels(rng, jobs.values(), 0.6):
            out.count('graphs whose jobs carry labels of mixed types')
        where = "%s%s hashes=%s forever=%s nested=%s" % (cls.__name__, {k: sorted(v) for k, v in req_names.items()},
                                                         hashes, sorted(forever), nested)
        got = _topo_checks(out, sched, req_names, member_names, acyclic, where)
        if got is not None and got is not acyclic:
            out.violation('check_cycles-wrong', "%s: check_cycles() returned %r, the graph is %s"
                          % (where, got, 'acyclic' if acyclic else 'cyclic'))
        _own_level_order(out, sched, req_names, member_names, acyclic, where)
        if acyclic:
            _list_ids(out, sched, where)
    out.nontrivial = n >= 2
    return finish(prop, out, key, index, tier, 'c15_exhaustive', (n, i, sl),
                  dict(nodes=n, requires={k: sorted(v) for k, v in req_names.items()}, acyclic=acyclic))


def random_digraph(rng, n, cyclic_wanted):
    """random requirement map on range(n); acyclic unless cyclic_wanted"""
    order = list(range(n))
    rng.shuffle(order)
    req = {i: set() for i in range(n)}
    dens = rng.choice([0.1, 0.25, 0.5])
    for x in range(n):
        for y in range(x):
            if rng.random() < dens:
                req[order[x]].add(order[y])
    if cyclic_wanted and n >= 1:
        kind = rng.choice(['back', 'self', 'island'])
        if kind == 'self' or n == 1:
            a = rng.randrange(n)
            req[a].add(a)
        elif kind == 'back':
            x = rng.randrange(1, n)
            y = rng.randrange(0, x)
            req[order[y]].add(order[x])
            if not R.is_acyclic(req) is False:
                # make sure: close a cycle explicitly
                req[order[x]].add(order[y])
        else:
            # a self-contained cycle not reachable from any entry job
            k = rng.randint(2, min(3, n)) if n >= 2 else 1
            cyc = rng.sample(range(n), k)
            for a, b in zip(cyc, cyc[1:] + cyc[:1]):
                req[a].add(b)
    return req


def c15_tree(prop, key, index, tier):
    """each level of a depth <= 3 tree carries its own digraph; one level may
    be cyclic: a Scheduler must report it at any depth, a PureScheduler only
    at its own level"""
    out = Out(prop)
    rng = random.Random(key)
    depth = rng.randint(1, 3)
    cyc_level = rng.choice([None, None] + list(range(depth)))
    counter = itertools.count()
    levels = []

    def mk(level, cyclic):
        n = rng.randint(1, 12 if level == 0 else 6)
        if level > 0 and not cyclic and rng.random() < 0.15:
            n = 0
            out.count('empty nested schedulers in the tree')
        req = random_digraph(rng, n, cyclic)
        jobs = {}
        # one or two nested schedulers per level: the planted cycle goes down one branch only
        slots = rng.sample(range(n), min(n, rng.choice([1, 1, 2]))) if level + 1 < depth else []
        for k, i in enumerate(slots):
            jobs[i] = mk(level + 1, cyc_level == level + 1 and k == 0)
        for i in range(n):
            if i not in jobs:
                jobs[i] = N("n%d" % next(counter), rng.randrange(64), forever=rng.random() < 0.2)
        for a, bs in req.items():
            for b in bs:
                jobs[a].required.add(jobs[b])
        members = [jobs[i] for i in range(n)]
        if rng.random() < 0.25:
            odd_labels(rng, members, 0.5)
        rng.shuffle(members)
        if level == 0:
            s = P(*members) if rng.random() < 0.5 else S("TOP", 0, *members)
        else:
            s = S("S%d" % next(counter), rng.randrange(64), *members, forever=rng.random() < 0.2)
        if rng.random() < 0.25:
            s.verbose = True
        req_names = {jobs[a].name: {jobs[b].name for b in bs} for a, bs in req.items()}
        levels.append((level, s, req_names))
        return s
    top = mk(0, cyc_level == 0)
    acyc = {id(s_): R.is_acyclic(rq) for lvl, s_, rq in levels}
    if isinstance(top, S):
        expected = all(acyc.values())
        out.count('nestable Scheduler trees')
    else:
        expected = acyc[id(top)]
        out.count('PureScheduler trees (own level only)')
    if cyc_level is not None and cyc_level > 0:
        out.count('cycle planted at depth %d' % cyc_level)
        out.nontrivial = True
    where = "tree depth %d, cyclic level %s, top %s" % (depth, cyc_level, type(top).__name__)
    buf0 = io.StringIO()
    with contextlib.redirect_stdout(buf0):
        got = _topo_checks(out, top, None, None, None, where)
    if got is not None and got is not expected:
        out.violation('check_cycles-wrong-tree', "%s: check_cycles() returned %r, expected %r (per-level acyclic: %s)"
                      % (where, got, expected, acyc))
    buf = io.StringIO()
    with contextlib.redirect_stdout(buf):       # some schedulers are verbose
        for lvl, s_, rq in levels:
            _own_level_order(out, s_, rq, sorted(rq), acyc[id(s_)], "%s level %d" % (where, lvl))
    if sum(1 for lvl, s_, rq in levels if lvl == 1) >= 2:
        out.count('trees with two nested schedulers side by side')
    if all(acyc.values()):
        _list_ids(out, top, where)
        out.nontrivial = True
    return finish(prop, out, key, index, tier, 'c15_tree', (key,),
                  dict(depth=depth, cyclic_level=cyc_level, top=type(top).__name__,
                       levels=[{k: sorted(v) for k, v in rq.items()} for _, _, rq in levels]))


def c15_history(prop, key, index, tier):
    """one scheduler object, edges toggled back and forth between cyclic and
    acyclic; now and then the scheduler is listed with list_safe() (the method
    documented for broken graphs), or its jobs are moved into a brand-new
    scheduler (possibly nested in a wrapper), and the questions are asked again"""
    out = Out(prop)
    rng = random.Random(key)
    n = rng.randint(2, 7)
    req = random_digraph(rng, n, False)
    hashes = list(range(n))
    rng.shuffle(hashes)
    cls = rng.choice([P, S])
    sched, jobs = build_flat(req, cls, hashes)
    if rng.random() < 0.3:
        sched.verbose = True
    if rng.random() < 0.3:
        odd_labels(rng, jobs.values(), 0.6)
    # half of the nestable ones live inside an enclosing scheduler for the whole
    # history: what is asked of the scheduler is asked of its ancestor too
    outer = None
    if cls is S and rng.random() < 0.5:
        outer = S("OUTER", 1, sched, N("side", 2))
        if rng.random() < 0.5:
            outer = S("OUTERMOST", 1, outer)
        out.count('histories under an enclosing scheduler')
    flips = 0
    prev = True
    steps = []
    held = []
    for step in range(rng.randint(4, 12)):
        r = rng.random()
        if r < 0.10 and prev and 'run()' not in steps:
            # a completed run (state left behind: tasks, results) before the next edits
            import asyncio
            loop = asyncio.new_event_loop()
            try:
                with contextlib.redirect_stdout(io.StringIO()):
                    loop.run_until_complete(asyncio.wait_for((outer or sched).co_run(), 60))
                steps.append('run()')
                out.count('completed runs before asking again')
            except BaseException as exc:                # noqa
                out.count('harness: run failed: %s' % type(exc).__name__)
            finally:
                loop.close()
        elif r < 0.20:
            buf = io.StringIO()
            try:
                with contextlib.redirect_stdout(buf):
                    sched.list_safe()
                steps.append('list_safe()')
                out.count('list_safe() calls before asking again')
            except BaseException as exc:                # noqa
                out.violation('list_safe-raised', "list_safe() raised %r" % (exc,))
        elif r < 0.30 and outer is None:
            # regroup: the same jobs, a new scheduler object
            members = list(sched.jobs)
            rng.shuffle(members)
            cls = rng.choice([P, S])
            sched = P(*members) if cls is P else S("TOP%d" % step, 0, *members)
            steps.append('moved to a new %s' % cls.__name__)
            out.count('job sets moved into a new scheduler')
        elif r < 0.38:
            # somebody starts scanning the scheduler and stops after the first
            # job (a search that found what it wanted); the generator object
            # stays around, never resumed
            gen = sched.topological_order()
            try:
                with line_budget(200_000):
                    next(gen, None)
            except BudgetExceeded as exc:
                out.violation('topological_order-no-termination', "after %s: first step of topological_order(): %s"
                              % (steps, exc))
            except Exception:                           # noqa  cyclic at the moment
                pass
            held.append(gen)
            steps.append('scan abandoned after one job')
            out.count('scans abandoned half-way (generator kept)')
        elif r < 0.62 and any(req.values()):
            # one requirement replaced by another between two questions: every
            # count a memo could be keyed on (jobs, requirements per job, or
            # edges in all) is the same before and after, only the graph differs
            a = rng.choice([x for x in range(n) if req[x]])
            b = rng.choice(sorted(req[a]))
            if rng.random() < 0.6:
                cands = [c for c in range(n) if c != a and c not in req[a]]
                if cands:
                    c = rng.choice(cands)
                    req[a].discard(b)
                    jobs[a].requires(jobs[b], remove=True)
                    req[a].add(c)
                    jobs[a].requires(jobs[c])
                    steps.append('rewire n%d->n%d to n%d->n%d' % (a, b, a, c))
                    out.count('requirements replaced one for one before asking again')
            else:
                cands = [(c, d) for c in range(n) for d in range(n) if c != d and c != a and d not in req[c]]
                if cands:
                    c, d = rng.choice(cands)
                    req[a].discard(b)
                    jobs[a].requires(jobs[b], remove=True)
                    req[c].add(d)
                    jobs[c].requires(jobs[d])
                    steps.append('move edge n%d->n%d to n%d->n%d' % (a, b, c, d))
                    out.count('edges moved to another job (same total) before asking again')
        else:
            a, b = rng.sample(range(n), 2)
            if b in req[a]:
                req[a].discard(b)
                jobs[a].requires(jobs[b], remove=True)
            else:
                req[a].add(b)
                jobs[a].requires(jobs[b])
            steps.append('toggle n%d->n%d' % (a, b))
        req_names = {"n%d" % x: {"n%d" % y for y in ys} for x, ys in req.items()}
        acyclic = R.is_acyclic(req_names)
        if acyclic != prev:
            flips += 1
        prev = acyclic
        where = "%s after %s %s" % (type(sched).__name__, steps, {k: sorted(v) for k, v in req_names.items()})
        got = _topo_checks(out, sched, None, None, None, where)
        if got is not None and got is not acyclic:
            out.violation('check_cycles-wrong-after-edit', "%s: check_cycles() returned %r, the graph is %s"
                          % (where, got, 'acyclic' if acyclic else 'cyclic'))
        _own_level_order(out, sched, req_names, sorted(req_names), acyclic, where)
        if outer is not None:
            out.count('questions asked of an ancestor as well')
            got = _topo_checks(out, outer, None, None, None, where + " (asked of %s)" % outer.name)
            if got is not None and got is not acyclic:
                out.violation('check_cycles-wrong-tree', "%s: %s.check_cycles() returned %r, the nested graph is %s"
                              % (where, outer.name, got, 'acyclic' if acyclic else 'cyclic'))
        if acyclic and rng.random() < 0.3:
            _list_ids(out, sched, where)
        if acyclic and rng.random() < 0.15 and isinstance(sched, S):
            # the whole scheduler nested, alone, in a wrapper
            wrapper = S("WRAP%d" % step, 1, sched)
            got = _topo_checks(out, wrapper, None, None, None, where + " (nested alone in a wrapper)")
            if got is not True:
                out.violation('check_cycles-wrong-tree', "%s nested alone in a wrapper: check_cycles() returned %r" % (where, got))
    out.count('cyclic<->acyclic transitions', flips)
    out.nontrivial = flips > 0
    return finish(prop, out, key, index, tier, 'c15_history', (key,), dict(nodes=n, transitions=flips, steps=steps))


# ------------------------------------------------------------------ C16
def c16_tree(prop, key, index, tier):
    out = Out(prop)
    rng = random.Random(key)
    counter = itertools.count()
    atoms, scheds = [], []

    def mk(depth):
        members = []
        for _ in range(rng.randint(0, 4) if depth else rng.randint(1, 5)):
            if depth < 2 and rng.random() < 0.3:
                members.append(mk(depth + 1))
            else:
                if rng.random() < 0.15:
                    a = NP("n%d" % next(counter), rng.randrange(64),
                           messages=rng.choice([(), (42,), (None, 'x'), ('hello',), (3.5, 'y')]))
                else:
                    a = N("n%d" % next(counter), rng.randrange(64))
                atoms.append(a)
                members.append(a)
        if depth == 0 and rng.random() < 0.3:
            s = P(*members)
        else:
            s = S("S%d" % next(counter), rng.randrange(64), *members)
        scheds.append(s)
        return s
    top = mk(0)
    outsiders = [N("o%d" % i, rng.randrange(64)) for i in range(2)]
    nested = [s for s in scheds if s is not top]
    jobs = atoms + nested
    pool = jobs + outsiders
    member_of = {}
    for s in scheds:
        for j in s.jobs:
            member_of[j] = s
    clean = rng.random() < 0.35
    kinds = set()
    for j in jobs:
        for _ in range(rng.choice([0, 0, 1, 2, 3])):
            if clean:
                sibs = [x for x in member_of[j].jobs if x is not j]
                if not sibs:
                    continue
                r = rng.choice(sibs)
            else:
                r = rng.choice(pool)
            if r is j:
                continue
            j.required.add(r)
            if r in outsiders:
                kinds.add('to a job of no scheduler')
            elif member_of.get(r) is member_of[j]:
                kinds.add('between members%s' % (' (nested scheduler involved)' if isinstance(r, S) or isinstance(j, S) else ''))
            else:
                kinds.add('across schedulers')
    for k in kinds:
        out.count('trees with edges %s' % k)
    if rng.random() < 0.2 and len(scheds) >= 2 and atoms:
        # "same requirements as that one": new jobs built with required=<the
        # requirement set of an existing job> (a copy, per the constructor's
        # contract) and placed in another scheduler of the tree
        for k in range(rng.randint(1, 2)):
            model = rng.choice(jobs)
            arg = model.required if rng.random() < 0.7 else list(model.required)
            clone = N("c%d" % k, rng.randrange(64), required=arg)
            home = rng.choice([s_ for s_ in scheds if s_ is not member_of[model]])
            home.add(clone)
            member_of[clone] = home
            atoms.append(clone)
            jobs.append(clone)
        out.count('trees with jobs built from the requirement set of another job')
    verbose_call = rng.random() < 0.2
    if verbose_call:
        out.count('trees sanitized in verbose mode')
        for s_ in scheds:
            if rng.random() < 0.5:
                s_.verbose = True
    ran = False
    if rng.random() < 0.3:
        # history: a *closed* version of the tree is run first (the dangling
        # edges are put aside and restored afterwards)
        aside = {j: set(j.required) - set(member_of[j].jobs) for j in jobs}
        for j in jobs:
            j.required -= aside[j]
        closed_acyclic = all(R.is_acyclic({x.name: {r.name for r in x.required} for x in s_.jobs},
                                          {x.name for x in s_.jobs}) for s_ in scheds)
        if closed_acyclic:
            import asyncio
            loop = asyncio.new_event_loop()
            try:
                with contextlib.redirect_stdout(io.StringIO()):
                    loop.run_until_complete(asyncio.wait_for(top.co_run(), 60))
                ran = True
                out.count('trees that were run before the dangling edges appeared')
            except BaseException as exc:                # noqa
                out.count('harness: pre-run failed: %s' % type(exc).__name__)
            finally:
                loop.close()
        for j in jobs:
            j.required |= aside[j]
    if rng.random() < 0.5:
        # state left behind by earlier queries: reverse links computed while the
        # dangling requirements are still there
        for s_ in scheds:
            list(s_.exit_jobs())
            for j in list(s_.jobs)[:2]:
                list(s_.successors(j))
        out.count('trees queried (reverse links computed) before sanitize()')
    if rng.random() < 0.35 and atoms:
        # history: plain jobs leave their scheduler (remove()), for a spare
        # scheduler or for none; they are no longer part of the tree, what the
        # others still require of them has become dangling
        spare = S("SPARE", 3)
        for j in rng.sample(atoms, min(len(atoms), rng.randint(1, 2))):
            member_of[j].remove(j)
            if rng.random() < 0.5:
                spare.add(j)
            del member_of[j]
            jobs.remove(j)
        out.count('trees from which jobs were taken out with remove() first')
    rounds = 2 if rng.random() < 0.5 else 1
    for rnd in range(rounds):
        if rnd:
            emptied = False
            flat = [s_ for s_ in scheds if s_ is not top and s_.jobs and all(j in atoms for j in s_.jobs)]
            if flat and rng.random() < 0.35:
                # a nested scheduler loses all its jobs between the two rounds
                s_ = rng.choice(flat)
                for j in list(s_.jobs):
                    s_.remove(j)
                    del member_of[j]
                    jobs.remove(j)
                    atoms.remove(j)
                emptied = True
                out.count('nested schedulers emptied between two rounds')
            if not emptied and rng.random() < 0.35:
                # every count stays what it was: one requirement of a job is
                # replaced by another one (possibly dangling), a job is replaced
                # by a new one with as many requirements
                for j in rng.sample(jobs, min(len(jobs), rng.randint(1, 2))):
                    if j.required:
                        gone = rng.choice(sorted(j.required, key=lambda x: x.name))
                        new_r = rng.choice([r for r in pool if r is not j and r not in j.required] or [gone])
                        j.requires(gone, remove=True)
                        j.required.add(new_r)
                out.count('second rounds in which requirements were replaced one for one')
            elif not (emptied and rng.random() < 0.6):
                # second round on the same objects: new requirements, some dangling, appear
                for j in rng.sample(jobs, min(len(jobs), rng.randint(1, 3))):
                    r = rng.choice(pool)
                    if r is not j:
                        j.required.add(r)
            out.count('second rounds (new edges after a first sanitize())')
        before = {j: set(j.required) for j in jobs}
        expect_fine = all(before[j] <= set(member_of[j].jobs) for j in jobs)
        buf = io.StringIO()
        try:
            with contextlib.redirect_stdout(buf):
                r1 = top.sanitize(verbose=True) if verbose_call and rnd == 0 else top.sanitize()
                # (not always asked twice when another round follows: a
                # second, clean scan would wipe whatever the first one left)
                r2 = top.sanitize() if rnd == rounds - 1 or rng.random() < 0.5 else True
        except BaseException as exc:                    # noqa
            out.violation('sanitize-raised', "sanitize() raised %r" % (exc,))
            return finish(prop, out, key, index, tier, 'c16_tree', (key,))
        out.count('sanitize() calls compared')
        out.count('trees that were already closed' if expect_fine else 'trees with dangling requirements')
        if nested:
            out.count('trees with nested schedulers')
            if expect_fine:
                out.count('closed trees with nested schedulers')
        tag = " (round %d)" % (rnd + 1) if rounds > 1 else ""
        for j in jobs:
            exp = before[j] & set(member_of[j].jobs)
            got = set(j.required)
            if got - exp:
                out.violation('not-closed', "after sanitize()%s %s (in %s) still requires non-members %s"
                              % (tag, j, member_of[j], names(got - exp)))
            if exp - got:
                out.violation('removed-too-much', "sanitize()%s removed the requirement(s) %s of %s although both are "
                              "members of %s" % (tag, names(exp - got), j, member_of[j]))
        if r1 is not expect_fine:
            out.violation('result-untruthful', "sanitize()%s returned %r but %s (top %s, %d nested scheduler(s))"
                          % (tag, r1, "nothing had to be removed" if expect_fine else "requirements had to be removed",
                             type(top).__name__, len(nested)))
        if r2 is not True:
            out.violation('second-call', "a second sanitize()%s returned %r" % (tag, r2))
    out.nontrivial = bool(nested) or not expect_fine
    return finish(prop, out, key, index, tier, 'c16_tree', (key,),
                  dict(top=type(top).__name__, schedulers=len(scheds), atoms=len(atoms),
                       requirements_before={j.name: names(before[j]) for j in jobs},
                       first_call=r1, second_call=r2))


# ------------------------------------------------------------------ C17
def _check_queries(out, sched, req, members, forever, starts_list, where, exits_first=False, budget=None):
    """req/members/forever are name-level truth; sched is the live object"""
    by = {j.name: j for j in sched.jobs}
    if set(by) != set(members):
        out.violation('members', "%s: members are %s, expected %s" % (where, sorted(by), sorted(members)))
        return
    rq = {a: {b for b in req.get(a, ()) if b in members} for a in members}
    succ = R.reverse(rq, members)
    up = R.closure(rq, members)
    down = R.closure(succ, members)
    # stale reverse links only show when a query is the first one asked after
    # an edit: alternate which family of queries goes first
    if exits_first:
        out.count('entry/exit asked first after an edit')
        _check_entry_exit(out, sched, req, members, forever, succ, where)
    inner_scheds = [j for j in sched.jobs if hasattr(j, 'jobs')]
    for k, starts in enumerate(starts_list):
        if inner_scheds and k % 3 == 1:
            # between two questions to this scheduler, one question to a nested
            # member about its own jobs (each level answers for itself)
            ns = inner_scheds[k % len(inner_scheds)]
            probe = next(iter(ns.jobs), None) or next(iter(sched.jobs))
            try:
                ns.successors_downstream(probe)
                out.count('closure queries put to a nested member in between')
            except BaseException as exc:                # noqa
                out.violation('query-raised', "%s: nested %s.successors_downstream() raised %r" % (where, ns, exc))
        objs = [by[s] for s in starts]
        exp = {
            'predecessors': set().union(*[rq[s] for s in starts]),
            'successors': set().union(*[succ[s] for s in starts]),
            'predecessors_upstream': set().union(*[up[s] for s in starts]),
            'successors_downstream': set().union(*[down[s] for s in starts]),
        }
        for meth, want in exp.items():
            out.count('neighbour/closure queries compared')
            try:
                if budget:
                    with line_budget(budget) as spent:
                        got = list(getattr(sched, meth)(*objs))
                    out.count('queries answered under a budget of logical steps')
                    out.count('  ... library lines they executed', spent[0])
                else:
                    got = list(getattr(sched, meth)(*objs))
            except BudgetExceeded as exc:
                out.violation('query-no-answer', "%s: %s(%s) gave no answer: %s" % (where, meth, sorted(starts)[:3], exc))
                continue
            except BaseException as exc:                # noqa
                out.violation('query-raised', "%s: %s(%s) raised %r" % (where, meth, sorted(starts), exc))
                continue
            gn = sorted(x.name for x in got)
            if len(gn) != len(set(gn)):
                out.violation('query-duplicates', "%s: %s(%s) yielded duplicates %s" % (where, meth, sorted(starts), gn))
            if set(gn) != want:
                out.violation('query-wrong', "%s: %s(%s) = %s, expected %s"
                              % (where, meth, sorted(starts), gn, sorted(want)))
        if len(starts) > 1:
            out.count('multi-start queries')
    if not exits_first:
        _check_entry_exit(out, sched, req, members, forever, succ, where)


def _check_entry_exit(out, sched, req, members, forever, succ, where):
    try:
        _check_entry_exit_(out, sched, req, members, forever, succ, where)
    except BaseException as exc:                        # noqa
        out.violation('query-raised', "%s: entry_jobs() / exit_jobs() raised %r" % (where, exc))


def _check_entry_exit_(out, sched, req, members, forever, succ, where):
    out.count('entry/exit queries compared')
    ent = sorted(j.name for j in sched.entry_jobs())
    # "the members that require nothing": literally nothing, so a member left
    # with a requirement towards a job that was removed is not an entry job
    want = sorted(a for a in members if not req.get(a))
    if ent != want:
        out.violation('entry_jobs', "%s: entry_jobs() = %s, expected %s" % (where, ent, want))
    for discard in (True, False):
        got = sorted(j.name for j in sched.exit_jobs(discard_forever=discard))
        want = sorted(a for a in members if not succ[a] and not (discard and a in forever))
        if got != want:
            out.violation('exit_jobs', "%s: exit_jobs(discard_forever=%s) = %s, expected %s (forever: %s)"
                          % (where, discard, got, want, sorted(forever)))
    got = sorted(j.name for j in sched.exit_jobs())
    want = sorted(a for a in members if not succ[a] and a not in forever)
    if got != want:
        out.violation('exit_jobs', "%s: exit_jobs() = %s, expected %s" % (where, got, want))


def _apply_edit(rng, sched, jobs, req, members, spare, out):
    """one random edit applied to the live scheduler and to the name-level truth"""
    if rng.random() < 0.25:
        # before the edit the scheduler is shown to somebody: listings and
        # exports number the jobs and compute reverse links as a side effect
        acyclic = R.is_acyclic({a: {b for b in req[a] if b in members} for a in members}, members)
        shows = ['list_safe'] + (['list', 'debrief', 'dot_format'] if acyclic else [])
        try:
            with contextlib.redirect_stdout(io.StringIO()):
                getattr(sched, rng.choice(shows))()
            out.count('listings / exports made before an edit')
        except BaseException as exc:                    # noqa  judged by C15 / C20, not here
            out.count('harness: listing failed before an edit: %s' % type(exc).__name__)
    op = rng.choice(['add_edge', 'add_edge', 'remove_edge', 'swap_edge', 'swap_edge', 'add_job', 'remove_job',
                     'bypass', 'keep_only'])
    mem = sorted(members)
    if op == 'swap_edge':
        # one requirement replaced by another: every job keeps its number of requirements
        cands = [(a, b) for a in mem for b in req[a] if b in members]
        if cands and len(mem) >= 3:
            a, b = rng.choice(cands)
            for c in rng.sample(mem, len(mem)):
                if c not in (a, b) and c not in req[a]:
                    trial = {k: set(v) for k, v in req.items()}
                    trial[a].discard(b)
                    trial[a].add(c)
                    if R.is_acyclic(trial, members):
                        req[a].discard(b)
                        req[a].add(c)
                        jobs[a].requires(jobs[b], remove=True)
                        jobs[a].requires(jobs[c])
                        return "%s: requirement %s replaced by %s" % (a, b, c)
        return None
    if op == 'add_edge' and len(mem) >= 2:
        a, b = rng.sample(mem, 2)
        trial = {k: set(v) for k, v in req.items()}
        trial[a].add(b)
        if R.is_acyclic(trial, members):
            req[a].add(b)
            jobs[a].requires(jobs[b])
            return "%s.requires(%s)" % (a, b)
    elif op == 'remove_edge':
        cands = [(a, b) for a in mem for b in req[a] if b in members]
        if cands:
            a, b = rng.choice(cands)
            req[a].discard(b)
            jobs[a].requires(jobs[b], remove=True)
            return "%s.requires(%s, remove=True)" % (a, b)
    elif op == 'add_job' and spare:
        nm = spare.pop()
        j = N(nm, rng.randrange(64))
        jobs[nm] = j
        req[nm] = set()
        if mem and rng.random() < 0.7:
            b = rng.choice(mem)
            req[nm].add(b)
            j.requires(jobs[b])
        sched.add(j)
        members.add(nm)
        if mem and rng.random() < 0.5:
            a = rng.choice(mem)
            if a not in R.closure(req, members)[nm]:
                req[a].add(nm)
                jobs[a].requires(j)
        return "add(%s)" % nm
    elif op == 'remove_job' and len(mem) >= 2:
        x = rng.choice(mem)
        sched.remove(jobs[x])
        members.discard(x)
        # requirements towards x stay in the jobs: the scheduler is no longer closed,
        # queries must ignore non-members
        return "remove(%s)" % x
    elif op == 'bypass' and len(mem) >= 2:
        x = rng.choice(mem)
        closed = all(b in members for a in members for b in req[a])
        if closed:
            for a in mem:
                if x in req[a]:
                    req[a].discard(x)
                    req[a] |= {b for b in req[x] if b != a}
            sched.bypass_and_remove(jobs[x])
            members.discard(x)
            return "bypass_and_remove(%s)" % x
    elif op == 'keep_only' and len(mem) >= 2:
        keep = set(rng.sample(mem, rng.randint(1, len(mem))))
        buf = io.StringIO()
        with contextlib.redirect_stdout(buf):
            sched.keep_only([jobs[k] for k in keep])
        for a in mem:
            if a in keep:
                req[a] = {b for b in req[a] if b in keep}
        members.intersection_update(keep)
        return "keep_only(%s)" % sorted(keep)
    return None


def _downward(rng, sched, jobs, req, out):
    """some members require a job that lives INSIDE a nested member (a link
    leaving the scheduler downwards: not a requirement between members, queries
    must ignore it); now and then the scheduler is verbose"""
    for name, j in list(jobs.items()):
        inner = getattr(j, '_inner', None)
        if inner and rng.random() < 0.5:
            others = [a for a in jobs if a != name]
            if others:
                a = rng.choice(sorted(others))
                jobs[a].required.add(inner[0])
                req[a].add(inner[0].name)
                out.count('members requiring a job that lives inside a nested member')
    if rng.random() < 0.25:
        sched.verbose = True
        out.count('queries put to a verbose scheduler')


def c17_space(tier):
    return [1, 2, 3, 4] + ([5] if tier == 'thorough' else [])


def c17_exhaustive_size(tier):
    return sum(R.dag_space(n) for n in c17_space(tier))


def _decode_dag_index(index, tier):
    i = index
    for n in c17_space(tier):
        size = R.dag_space(n)
        if i < size:
            return n, i
        i -= size
    raise IndexError(index)


def c17_exhaustive(prop, key, index, tier):
    out = Out(prop)
    n, bits = _decode_dag_index(index, tier)
    rng = random.Random(key)
    base = R.decode_dag(n, bits)
    # relabel: every labelled DAG is a permutation of an ordered one
    perm = list(range(n))
    rng.shuffle(perm)
    req = {"n%d" % perm[a]: {"n%d" % perm[b] for b in bs} for a, bs in base.items()}
    members = set(req)
    forever = {a for a in members if rng.random() < 0.3}
    hashes = list(range(n))
    rng.shuffle(hashes)
    out.count('DAGs with %d nodes' % n)
    req0 = req
    for cls in (P, S):
        req = {k: set(v) for k, v in req0.items()}
        nested = {int(a[1:]): rng.choice(['empty', 'full']) for a in members if rng.random() < 0.2}
        if nested:
            out.count('graphs in which some members are nested schedulers')
            if 'empty' in nested.values():
                out.count('graphs with an empty nested scheduler as a member')
        sched, jobs = build_flat({int(a[1:]): {int(b[1:]) for b in bs} for a, bs in req.items()}, cls,
                                 {int(a[1:]): hashes[k] for k, a in enumerate(sorted(members))},
                                 forever={int(a[1:]) for a in forever}, nested=nested)
        jobs = {"n%d" % k: v for k, v in jobs.items()}
        _downward(rng, sched, jobs, req, out)
        starts_list = [s for s in R.subsets_upto(sorted(members), 3) if s]
        where = "%s %s" % (cls.__name__, {k: sorted(v) for k, v in req.items()})
        _check_queries(out, sched, req, members, forever, starts_list, where)
        # then an edit history on the same object: stale reverse links must not show
        req2 = {k: set(v) for k, v in req.items()}
        mem2 = set(members)
        spare = ["x%d" % k for k in range(3)]
        log = []
        for _ in range(rng.randint(2, 6)):
            try:
                done = _apply_edit(rng, sched, jobs, req2, mem2, spare, out)
                if done and rng.random() < 0.4:
                    # several edits in a row, no query in between
                    more = _apply_edit(rng, sched, jobs, req2, mem2, spare, out)
                    if more:
                        done = done + "; " + more
                        out.count('several edits in a row before re-asking')
            except BaseException as exc:                # noqa
                out.violation('edit-raised', "%s after %s: edit raised %r" % (where, log, exc))
                break
            if done:
                log.append(done)
                out.count('edits applied before re-asking')
                fv = {a for a in forever if a in mem2}
                sl = [s for s in R.subsets_upto(sorted(mem2), 2) if s]
                _check_queries(out, sched, req2, mem2, fv, sl, "%s after %s" % (where, log),
                               exits_first=len(log) % 2 == 1)
    out.nontrivial = n >= 3
    return finish(prop, out, key, index, tier, 'c17_exhaustive', (n, bits),
                  dict(requires={k: sorted(v) for k, v in req.items()}, forever=sorted(forever)))


def c17_random(prop, key, index, tier):
    out = Out(prop)
    rng = random.Random(key)
    n = rng.randint(5, 12)
    base = random_digraph(rng, n, False)
    req = {"n%d" % a: {"n%d" % b for b in bs} for a, bs in base.items()}
    members = set(req)
    forever = {a for a in members if rng.random() < 0.25}
    hashes = [rng.randrange(32) for _ in range(n)]
    cls = rng.choice([P, S])
    nested = {i: rng.choice(['empty', 'full']) for i in base if rng.random() < 0.2}
    if nested:
        out.count('graphs in which some members are nested schedulers')
        if 'empty' in nested.values():
            out.count('graphs with an empty nested scheduler as a member')
    sched, jobs = build_flat(base, cls, hashes, forever={int(a[1:]) for a in forever}, nested=nested)
    jobs = {"n%d" % k: v for k, v in jobs.items()}
    _downward(rng, sched, jobs, req, out)
    mem = sorted(members)
    starts_list = [{a} for a in mem] + [set(rng.sample(mem, rng.randint(2, 3))) for _ in range(10)]
    where = "%s %s" % (cls.__name__, {k: sorted(v) for k, v in req.items()})
    out.count('random DAGs (5-12 nodes)')
    _check_queries(out, sched, req, members, forever, starts_list, where)
    spare = ["x%d" % k for k in range(4)]
    log = []
    for _ in range(rng.randint(3, 10)):
        done = _apply_edit(rng, sched, jobs, req, members, spare, out)
        if done and rng.random() < 0.4:
            more = _apply_edit(rng, sched, jobs, req, members, spare, out)
            if more:
                done = done + "; " + more
                out.count('several edits in a row before re-asking')
        if done:
            log.append(done)
            out.count('edits applied before re-asking')
            fv = {a for a in forever if a in members}
            mem = sorted(members)
            sl = [{a} for a in mem] + [set(rng.sample(mem, min(len(mem), rng.randint(2, 3)))) for _ in range(4)]
            _check_queries(out, sched, req, members, fv, sl, "%s after %s" % (where, log),
                           exits_first=len(log) % 2 == 1)
    out.nontrivial = True
    return finish(prop, out, key, index, tier, 'c17_random', (key,),
                  dict(requires={k: sorted(v) for k, v in req.items()}, edits=log))


def large_dag(rng):
    """requirement maps with 40-150 nodes in which the number of *paths* is
    astronomically larger than the number of nodes"""
    kind = rng.choice(['diamonds', 'layers', 'ladder', 'sparse'])
    req = {}
    if kind == 'diamonds':
        k = rng.randint(13, 49)
        req[0] = set()
        for d in range(k):
            a, b, c, e = 3 * d, 3 * d + 1, 3 * d + 2, 3 * d + 3
            req[b], req[c], req[e] = {a}, {a}, {b, c}
    elif kind == 'layers':
        w, depth = rng.choice([(2, 30), (3, 25), (4, 20), (5, 15)])
        for lay in range(depth):
            for i in range(w):
                req[lay * w + i] = set(range((lay - 1) * w, lay * w)) if lay else set()
    elif kind == 'ladder':
        k = rng.randint(20, 70)
        for i in range(k):
            req[2 * i] = {2 * i - 2, 2 * i - 1} if i else set()
            req[2 * i + 1] = {2 * i - 2, 2 * i - 1} if i else set()
    else:
        n = rng.randint(60, 150)
        for i in range(n):
            req[i] = {j for j in range(max(0, i - 6), i) if rng.random() < 0.5}
    # relabel at random: nothing depends on creation order
    perm = list(req)
    rng.shuffle(perm)
    return kind, {perm[a]: {perm[b] for b in bs} for a, bs in req.items()}


def c17_large(prop, key, index, tier):
    """the same questions on large graphs, each under a budget of logical
    steps (library lines executed) that the linear algorithms stay far below:
    an answer that does not come is a wrong answer"""
    out = Out(prop)
    rng = random.Random(key)
    kind, base = large_dag(rng)
    n = len(base)
    req = {"n%d" % a: {"n%d" % b for b in bs} for a, bs in base.items()}
    members = set(req)
    forever = {a for a in members if rng.random() < 0.1}
    hashes = [rng.randrange(256) for _ in range(n)]
    cls = rng.choice([P, S])
    sched, jobs = build_flat(base, cls, hashes, forever={int(a[1:]) for a in forever})
    mem = sorted(members)
    up = R.closure(req, members)
    deepest = max(mem, key=lambda a: len(up[a]))
    shallowest = min(mem, key=lambda a: len(up[a]))
    starts_list = [{deepest}, {shallowest}] + [{a} for a in rng.sample(mem, 3)] + [set(rng.sample(mem, 3))]
    out.count('large DAGs (%s)' % kind)
    out.count('  ... jobs in them', n)
    _check_queries(out, sched, req, members, forever, starts_list, "%s %s with %d jobs" % (cls.__name__, kind, n),
                   exits_first=rng.random() < 0.5, budget=2_000_000)
    out.nontrivial = True
    return finish(prop, out, key, index, tier, 'c17_large', (key,), dict(kind=kind, jobs=n))


def c17_iterate(prop, key, index, tier):
    """iterate_jobs() visits every job of the whole tree exactly once"""
    out = Out(prop)
    rng = random.Random(key)
    counter = itertools.count()
    atoms, nested = [], []

    def mk(depth):
        members = []
        for _ in range(rng.randint(0, 4) if depth else rng.randint(1, 5)):
            if depth < 3 and rng.random() < 0.35:
                members.append(mk(depth + 1))
            else:
                a = N("n%d" % next(counter), rng.randrange(64))
                atoms.append(a)
                members.append(a)
        if depth == 0:
            return P(*members) if rng.random() < 0.4 else S("TOP", 0, *members)
        s = S("S%d" % next(counter), rng.randrange(64), *members)
        nested.append(s)
        return s
    top = mk(0)
    out.count('trees traversed')
    got = [j.name for j in top.iterate_jobs()]
    if sorted(got) != sorted(a.name for a in atoms):
        out.violation('iterate_jobs', "iterate_jobs() yielded %s, the atomic jobs are %s"
                      % (sorted(got), sorted(a.name for a in atoms)))
    got_all = list(top.iterate_jobs(scan_schedulers=True))
    tops = [x for x in got_all if x is top]
    rest = sorted(x.name for x in got_all if x is not top)
    if len(tops) > 1:
        out.violation('iterate_jobs', "iterate_jobs(scan_schedulers=True) yielded the top scheduler %d times" % len(tops))
    want = sorted([a.name for a in atoms] + [s.name for s in nested])
    if rest != want:
        out.violation('iterate_jobs', "iterate_jobs(scan_schedulers=True) yielded %s, expected %s" % (rest, want))
    if nested:
        out.count('trees with nested schedulers traversed')
        out.nontrivial = True
    return finish(prop, out, key, index, tier, 'c17_iterate', (key,),
                  dict(atoms=len(atoms), nested=len(nested), top=type(top).__name__))


# ------------------------------------------------------------------ C18
def _snapshot(sched):
    members = {j.name for j in sched.jobs}
    req = {j.name: {r.name for r in j.required} for j in sched.jobs}
    return members, req


def _closed_acyclic(out, sched, where):
    members, req = _snapshot(sched)
    out.count('acyclic-and-closed checks after surgery')
    dangling = {a: sorted(bs - members) for a, bs in req.items() if bs - members}
    if dangling:
        out.violation('not-closed-after', "%s: requirements to dropped jobs remain: %s" % (where, dangling))
    if not R.is_acyclic(req, members):
        out.violation('cyclic-after', "%s: the scheduler became cyclic: %s" % (where, {k: sorted(v) for k, v in req.items()}))


# which members of the C18 graphs are nestable schedulers ('empty' ones are
# falsy: len() == 0), and whether the scheduler is verbose: set per case
_C18 = dict(nested={}, verbose=False)


def _fresh(req, cls, hashes):
    base = {int(a[1:]): {int(b[1:]) for b in bs} for a, bs in req.items()}
    nested = {int(a[1:]): kind for a, kind in _C18['nested'].items() if a in req}
    sched, jobs = build_flat(base, cls, {int(a[1:]): hashes[a] for a in req}, nested=nested)
    for i in nested:
        for inner_job in jobs[i]._inner:
            inner_job.required.clear()          # surgery is judged on closed schedulers
    sched.verbose = _C18['verbose']
    return sched, {"n%d" % k: v for k, v in jobs.items()}


def _check_bypass(out, req, cls, hashes, target, where):
    members = set(req)
    sched, jobs = _fresh(req, cls, hashes)
    before = R.closure(req, members)
    out.count('bypass_and_remove() calls compared')
    try:
        sched.bypass_and_remove(jobs[target])
    except BaseException as exc:                        # noqa
        out.violation('bypass-raised', "%s: bypass_and_remove(%s) raised %r" % (where, target, exc))
        return
    mem2, req2 = _snapshot(sched)
    if mem2 != members - {target}:
        out.violation('bypass-members', "%s: after bypass_and_remove(%s) members are %s"
                      % (where, target, sorted(mem2)))
        return
    after = R.closure(req2, mem2)
    for a in mem2:
        want = before[a] - {target}
        if after[a] != want:
            out.violation('bypass-precedence', "%s: after bypass_and_remove(%s), %s must run after %s, was %s"
                          % (where, target, a, sorted(after[a]), sorted(want)))
    _closed_acyclic(out, sched, "%s bypass_and_remove(%s)" % (where, target))


def _check_keep_only(out, req, cls, hashes, keep, extra, where):
    members = set(req)
    sched, jobs = _fresh(req, cls, hashes)
    outsiders = [N("o%d" % k) for k in range(extra)]
    arg = [jobs[k] for k in sorted(keep)] + outsiders
    kind = (len(keep) + extra) % 3
    if kind == 1:
        arg = iter(arg)                         # a one-shot iterator is a legal collection here
    elif kind == 2:
        arg = set(arg)
    out.count('keep_only() calls compared')
    buf = io.StringIO()
    try:
        with contextlib.redirect_stdout(buf):
            sched.keep_only(arg)
    except BaseException as exc:                        # noqa
        out.violation('keep_only-raised', "%s: keep_only(%s) raised %r" % (where, sorted(keep), exc))
        return
    mem2, req2 = _snapshot(sched)
    if mem2 != members & keep:
        out.violation('keep_only-members', "%s: keep_only(%s) kept %s" % (where, sorted(keep), sorted(mem2)))
        return
    for a in mem2:
        want = req[a] & mem2
        if req2[a] != want:
            out.violation('keep_only-requirements', "%s: keep_only(%s): %s requires %s, expected %s"
                          % (where, sorted(keep), a, sorted(req2[a]), sorted(want)))
    _closed_acyclic(out, sched, "%s keep_only(%s)" % (where, sorted(keep)))


def _between(req, members, starts, ends, keep_starts, keep_ends):
    rq = {a: req[a] & members for a in members}
    succ = R.reverse(rq, members)
    up, down = R.closure(rq, members), R.closure(succ, members)
    downs = set().union(*[down[s] for s in starts]) if starts else set(members)
    ups = set().union(*[up[e] for e in ends]) if ends else set(members)
    kept = downs & ups
    if keep_starts:
        kept |= starts
    if keep_ends:
        kept |= ends
    return kept


def _check_between(out, req, cls, hashes, starts, ends, ks, ke, where, iterators=False, foreign=(0, 0), budget=None):
    """foreign = (number of jobs that are not members added to starts, to ends):
    they are downstream / upstream of nothing; whatever the library does with
    them, the members kept must be the documented ones and the result closed"""
    members = set(req)
    sched, jobs = _fresh(req, cls, hashes)
    fs = [N("fs%d" % k, 70 + k) for k in range(foreign[0])]
    fe = [N("fe%d" % k, 80 + k) for k in range(foreign[1])]
    kept = _between(req, members, starts, ends, ks, ke) if not (fs or fe) else None
    if kept is None:
        rq = {a: req[a] & members for a in members}
        succ = R.reverse(rq, members)
        up, down = R.closure(rq, members), R.closure(succ, members)
        downs = set().union(*[down[x] for x in starts]) if (starts or fs) else set(members)
        ups = set().union(*[up[x] for x in ends]) if (ends or fe) else set(members)
        kept = downs & ups
        if ks:
            kept |= starts
        if ke:
            kept |= ends
        out.count('keep_only_between() calls with jobs that are not members among starts/ends')
    out.count('keep_only_between() calls compared')
    kw = dict(keep_starts=ks, keep_ends=ke)
    sl = [jobs[x] for x in sorted(starts)] + fs
    el = [jobs[x] for x in sorted(ends)] + fe
    if sl or not iterators:
        kw['starts'] = iter(sl) if iterators else (set(sl) if foreign[0] else sl)
    if el or not iterators:
        kw['ends'] = iter(el) if iterators else el
    desc = "keep_only_between(starts=%s, ends=%s, keep_starts=%s, keep_ends=%s)" % (
        sorted(starts) + [f.name for f in fs], sorted(ends) + [f.name for f in fe], ks, ke)
    buf = io.StringIO()
    try:
        with contextlib.redirect_stdout(buf):
            if budget:
                with line_budget(budget) as spent:
                    sched.keep_only_between(**kw)
                out.count('surgery done under a budget of logical steps')
                out.count('  ... library lines executed', spent[0])
            else:
                sched.keep_only_between(**kw)
    except BudgetExceeded as exc:
        out.violation('between-no-answer', "%s: %s gave no answer: %s" % (where, desc[:200], exc))
        return
    except BaseException as exc:                        # noqa
        out.violation('between-raised', "%s: %s raised %r" % (where, desc, exc))
        return
    mem2, req2 = _snapshot(sched)
    if mem2 & members != kept:
        out.violation('between-members', "%s: %s kept %s, expected %s" % (where, desc, sorted(mem2 & members), sorted(kept)))
        return
    for a in mem2 & members:
        want = req[a] & mem2
        if req2[a] != want:
            out.violation('between-requirements', "%s: %s: %s requires %s, expected %s"
                          % (where, desc, a, sorted(req2[a]), sorted(want)))
    _closed_acyclic(out, sched, "%s %s" % (where, desc))


def c18_large(prop, key, index, tier):
    """keep_only_between() and bypass_and_remove() on path-rich DAGs of 40-150
    jobs, under a budget of logical steps far above what the linear algorithms
    need: a subset that never comes is not the documented subset"""
    out = Out(prop)
    rng = random.Random(key)
    kind, base = large_dag(rng)
    req = {"n%d" % a: {"n%d" % b for b in bs} for a, bs in base.items()}
    names_ = sorted(req)
    hashes = {a: rng.randrange(256) for a in names_}
    cls = rng.choice([P, S])
    up = R.closure(req, set(req))
    deepest = max(names_, key=lambda a: len(up[a]))
    shallow = min(names_, key=lambda a: len(up[a]))
    out.count('large DAGs (%s)' % kind)
    where = "%s %s with %d jobs" % (cls.__name__, kind, len(req))
    for starts, ends in (({shallow}, {deepest}), (set(), {deepest}), ({shallow}, set()),
                         (set(rng.sample(names_, 2)), set(rng.sample(names_, 2)))):
        _check_between(out, req, cls, hashes, starts, ends, rng.random() < 0.5, rng.random() < 0.5, where,
                       budget=4_000_000)
    out.nontrivial = True
    return finish(prop, out, key, index, tier, 'c18_large', (key,), dict(kind=kind, jobs=len(req)))


def c18_space(tier):
    return [1, 2, 3, 4] + ([5] if tier == 'thorough' else [])


def c18_exhaustive_size(tier):
    return sum(R.dag_space(n) for n in c18_space(tier))


def c18_exhaustive(prop, key, index, tier):
    out = Out(prop)
    i = index
    for n in c18_space(tier):
        size = R.dag_space(n)
        if i < size:
            break
        i -= size
    rng = random.Random(key)
    base = R.decode_dag(n, i)
    perm = list(range(n))
    rng.shuffle(perm)
    req = {"n%d" % perm[a]: {"n%d" % perm[b] for b in bs} for a, bs in base.items()}
    members = sorted(req)
    hs = list(range(n))
    rng.shuffle(hs)
    hashes = dict(zip(members, hs))
    cls = P if index % 2 else S
    _C18['nested'] = {a: rng.choice(['empty', 'full']) for a in members if rng.random() < 0.2}
    _C18['verbose'] = rng.random() < 0.25
    if 'empty' in _C18['nested'].values():
        out.count('graphs with an empty nested scheduler as a member')
    if _C18['verbose']:
        out.count('verbose schedulers under surgery')
    where = "%s %s nested=%s verbose=%s" % (cls.__name__, {k: sorted(v) for k, v in req.items()},
                                          _C18['nested'], _C18['verbose'])
    out.count('DAGs with %d nodes' % n)
    for target in members:
        _check_bypass(out, req, cls, hashes, target, where)
    for keep in R.subsets_upto(members, n):
        _check_keep_only(out, req, cls, hashes, keep, extra=(len(keep) % 2), where=where)
    small = list(R.subsets_upto(members, 2))
    for starts in small:
        for ends in small:
            for ks in (True, False):
                for ke in (True, False):
                    _check_between(out, req, cls, hashes, starts, ends, ks, ke, where,
                                   iterators=(len(starts) + len(ends)) % 2 == 1)
    for _ in range(6):
        starts = set(rng.sample(members, rng.randint(0, min(2, n))))
        ends = set(rng.sample(members, rng.randint(0, min(2, n))))
        _check_between(out, req, cls, hashes, starts, ends, rng.random() < 0.5, rng.random() < 0.5, where,
                       iterators=rng.random() < 0.3, foreign=rng.choice([(1, 0), (0, 1), (2, 0), (1, 1)]))
    out.nontrivial = n >= 3
    return finish(prop, out, key, index, tier, 'c18_exhaustive', (n, i),
                  dict(requires={k: sorted(v) for k, v in req.items()}))


def c18_history(prop, key, index, tier):
    """random sequences of surgery operations on one scheduler object, the
    name-level model following along"""
    out = Out(prop)
    rng = random.Random(key)
    n = rng.randint(4, 12)
    base = random_digraph(rng, n, False)
    req = {"n%d" % a: {"n%d" % b for b in bs} for a, bs in base.items()}
    hashes = {a: rng.randrange(32) for a in req}
    cls = rng.choice([P, S])
    _C18['nested'] = {a: rng.choice(['empty', 'full']) for a in req if rng.random() < 0.15}
    _C18['verbose'] = rng.random() < 0.25
    sched, jobs = _fresh(req, cls, hashes)
    members = set(req)
    log = []
    out.count('random DAGs (4-12 nodes) under operation sequences')
    for step in range(rng.randint(2, 7)):
        if len(members) < 2:
            break
        mem = sorted(members)
        if rng.random() < 0.4:
            # something that computes reverse links ...
            list(sched.exit_jobs())
            sched.successors_downstream(jobs[rng.choice(mem)])
            log.append('queries')
            out.count('queries between surgery operations')
        if rng.random() < 0.4:
            # ... and a manual edit of the graph afterwards
            cands = [(a, b) for a in mem for b in req[a]]
            swapped = False
            if cands and len(mem) >= 3 and rng.random() < 0.4:
                # one requirement replaced by another: same jobs, same number
                # of requirements per job, a different graph
                a, b = rng.choice(cands)
                others = [c for c in mem if c not in (a, b) and c not in req[a]]
                rng.shuffle(others)
                for c in others:
                    trial = {k: set(v) for k, v in req.items()}
                    trial[a].discard(b)
                    trial[a].add(c)
                    if R.is_acyclic(trial, members):
                        req[a].discard(b)
                        req[a].add(c)
                        jobs[a].requires(jobs[b], remove=True)
                        jobs[a].requires(jobs[c])
                        log.append('%s: requirement %s replaced by %s' % (a, b, c))
                        out.count('requirements replaced one for one between surgery operations')
                        swapped = True
                        break
            if swapped:
                pass
            elif cands and rng.random() < 0.6:
                a, b = rng.choice(cands)
                req[a].discard(b)
                jobs[a].requires(jobs[b], remove=True)
                log.append('%s.requires(%s, remove=True)' % (a, b))
            else:
                a, b = rng.sample(mem, 2)
                trial = {k: set(v) for k, v in req.items()}
                trial[a].add(b)
                if R.is_acyclic(trial, members):
                    req[a].add(b)
                    jobs[a].requires(jobs[b])
                    log.append('%s.requires(%s)' % (a, b))
            out.count('manual edits between surgery operations')
        op = rng.choice(['bypass', 'bypass', 'keep_only', 'between', 'between'])
        before_clo = R.closure(req, members)
        buf = io.StringIO()
        try:
            with contextlib.redirect_stdout(buf):
                if op == 'bypass':
                    x = rng.choice(mem)
                    desc = "bypass_and_remove(%s)" % x
                    sched.bypass_and_remove(jobs[x])
                    exp_members = members - {x}
                    exp_clo = {a: before_clo[a] - {x} for a in exp_members}
                    exp_req = None
                elif op == 'keep_only':
                    keep = set(rng.sample(mem, rng.randint(1, len(mem))))
                    desc = "keep_only(%s)" % sorted(keep)
                    karg = [jobs[k] for k in keep]
                    sched.keep_only(iter(karg) if step % 2 else karg)
                    exp_members = members & keep
                    exp_req = {a: req[a] & exp_members for a in exp_members}
                else:
                    starts = set(rng.sample(mem, rng.randint(0, min(3, len(mem)))))
                    ends = set(rng.sample(mem, rng.randint(0, min(3, len(mem)))))
                    ks, ke = rng.random() < 0.5, rng.random() < 0.5
                    desc = "keep_only_between(starts=%s, ends=%s, keep_starts=%s, keep_ends=%s)" % (
                        sorted(starts), sorted(ends), ks, ke)
                    sched.keep_only_between(starts=[jobs[s] for s in starts], ends=[jobs[e] for e in ends],
                                            keep_starts=ks, keep_ends=ke)
                    exp_members = _between(req, members, starts, ends, ks, ke)
                    exp_req = {a: req[a] & exp_members for a in exp_members}
        except BaseException as exc:                    # noqa
            out.violation('surgery-raised', "after %s: %s raised %r" % (log, desc, exc))
            break
        log.append(desc)
        out.count('operations applied in sequence')
        mem2, req2 = _snapshot(sched)
        where = "%s after %s" % (cls.__name__, log)
        if mem2 != exp_members:
            out.violation('history-members', "%s: members %s, expected %s" % (where, sorted(mem2), sorted(exp_members)))
            break
        if exp_req is not None:
            for a in mem2:
                if req2[a] != exp_req[a]:
                    out.violation('history-requirements', "%s: %s requires %s, expected %s"
                                  % (where, a, sorted(req2[a]), sorted(exp_req[a])))
        else:
            clo2 = R.closure(req2, mem2)
            for a in mem2:
                if clo2[a] != exp_clo[a]:
                    out.violation('history-precedence', "%s: %s must run after %s, expected %s"
                                  % (where, a, sorted(clo2[a]), sorted(exp_clo[a])))
        _closed_acyclic(out, sched, where)
        members, req = mem2, {a: set(req2[a]) for a in mem2}
    out.nontrivial = len(log) >= 2
    return finish(prop, out, key, index, tier, 'c18_history', (key,), dict(nodes=n, operations=log))


# ------------------------------------------------------------------ C19
class MJob:
    def __init__(self, name):
        self.name = name
        self.req = set()


class MSeq:
    def __init__(self):
        self.jobs = []
        self.sched = None


class MSched:
    def __init__(self):
        self.jobs = set()


class MNest(MJob):
    """a nestable Scheduler: a job (it can be required, sit in a sequence, be a
    member) and a container (scheduler= target, add / update)"""

    def __init__(self, name):
        MJob.__init__(self, name)
        self.jobs = set()


def m_flat(items):
    out = []
    for x in items:
        if x is None:
            continue
        if isinstance(x, MJob):
            out.append(x)
        elif isinstance(x, MSeq):
            out += x.jobs
    return out


def m_requires(job, arg, remove=False):
    """documented semantics of requires(): arbitrarily nested lists / tuples /
    sets are flattened, None ignored, a sequence stands for its last job, a
    job never requires itself, remove=True removes exactly the named
    requirements (KeyError if absent)"""
    if arg is None:
        return
    if isinstance(arg, MJob):
        if remove:
            if arg not in job.req:
                raise KeyError(arg.name)
            job.req.discard(arg)
        elif arg is not job:
            job.req.add(arg)
    elif isinstance(arg, MSeq):
        if arg.jobs:
            m_requires(job, arg.jobs[-1], remove)
    elif isinstance(arg, (list, tuple, set, frozenset, collections.deque)):
        for a in arg:
            m_requires(job, a, remove)


def c19_program(prop, key, index, tier):
    out = Out(prop)
    rng = random.Random(key)
    real, model, names_ = {}, {}, []
    log = []

    def new_name(prefix):
        n = "%s%d" % (prefix, len(names_))
        names_.append(n)
        return n

    def pick(kinds, allow_none=True):
        cands = [n for n in names_ if n[0] in kinds]
        if allow_none and rng.random() < 0.15:
            return None
        return rng.choice(cands) if cands else None

    def nest(depth=0):
        if depth < 3 and rng.random() < 0.3:
            t = rng.choice(['list', 'tuple', 'set', 'list', 'tuple', 'set', 'fset', 'deque'])
            return (t, [nest(depth + 1) for _ in range(rng.randint(0, 3))])
        return ('name', pick('jsn'))

    def realize(a, table):
        if a[0] == 'name':
            return table.get(a[1]) if a[1] else None
        items = [realize(x, table) for x in a[1]]
        if a[0] == 'list':
            return list(items)
        if a[0] == 'tuple':
            return tuple(items)
        if a[0] == 'deque':
            return collections.deque(items)             # "some other sort of iterable"
        try:
            return frozenset(items) if a[0] == 'fset' else set(items)
        except TypeError:
            return list(items)

    def show(a):
        if a[0] == 'name':
            return str(a[1])
        o, c = {'list': '[]', 'tuple': '()', 'set': '{}', 'fset': ('frozenset({', '})'),
                'deque': ('deque([', '])')}[a[0]]
        return o + ", ".join(show(x) for x in a[1]) + c

    def compare(where):
        for n in names_:
            if n[0] in 'jn':
                strangers = [x for x in real[n].required if not hasattr(x, 'name')]
                if strangers:
                    return 'requirements', "%s: %s.required holds %r, which is no job" % (where, n, strangers[:3])
                a = {x.name for x in real[n].required}
                b = {x.name for x in model[n].req}
                if a != b:
                    return 'requirements', "%s: %s.required is %s, documented semantics give %s" % (where, n, sorted(a), sorted(b))
            if n[0] == 'n':
                a = sorted(x.name for x in real[n].jobs)
                b = sorted(x.name for x in model[n].jobs)
                if a != b:
                    return 'membership', "%s: nested scheduler %s holds %s, expected %s" % (where, n, a, b)
                continue
            elif n[0] == 's':
                a = [x.name for x in real[n].jobs]
                b = [x.name for x in model[n].jobs]
                if a != b:
                    return 'sequence-jobs', "%s: sequence %s holds %s, expected %s" % (where, n, a, b)
            elif n[0] == 'S':
                a = sorted(x.name for x in real[n].jobs)
                b = sorted(x.name for x in model[n].jobs)
                if a != b:
                    return 'membership', "%s: scheduler %s holds %s, expected %s" % (where, n, a, b)
                if len(a) != len(set(a)):
                    return 'membership', "%s: scheduler %s holds duplicates %s" % (where, n, a)
        return None

    nsteps = rng.randint(3, 12)
    ops = ['job', 'job', 'job', 'seq', 'seq', 'append', 'append', 'requires', 'requires', 'remove',
           'sched', 'add', 'update', 'seqreq', 'seqasreq', 'nest', 'nest', 'leave', 'look', 'ran']
    for step in range(nsteps):
        op = rng.choice(ops)
        desc = None
        try:
            if op == 'sched':
                n = new_name('S')
                vb = rng.random() < 0.25
                real[n], model[n] = PureScheduler(verbose=vb), MSched()
                desc = "%s = PureScheduler(verbose=%s)" % (n, vb)
            elif op == 'nest':
                # a nestable Scheduler, created empty (an empty scheduler is falsy: len() == 0)
                n = new_name('n')
                names_.pop()
                r = rng.random()
                reqarg = nest() if r < 0.3 else ('name', pick('jsn')) if r < 0.7 else ('name', None)
                sc = pick('Sn') if rng.random() < 0.5 else None
                desc = "%s = Scheduler(required=%s, scheduler=%s)" % (n, show(reqarg), sc)
                rn = S(n, rng.randrange(16), required=realize(reqarg, real), scheduler=real.get(sc),
                       verbose=rng.random() < 0.2)
                mn = MNest(n)
                m_requires(mn, realize(reqarg, model))
                names_.append(n)
                real[n], model[n] = rn, mn
                if sc:
                    model[sc].jobs.add(mn)
                out.count('nestable schedulers created empty, with required= / scheduler=')
            elif op == 'job':
                n = new_name('j')
                names_.pop()
                r = rng.random()
                reqarg = nest() if r < 0.35 else ('name', pick('jsn')) if r < 0.6 else ('name', None)
                sc = pick('Sn') if rng.random() < 0.4 else None
                desc = "%s = Job(required=%s, scheduler=%s)" % (n, show(reqarg), sc)
                rj = N(n, rng.randrange(16), required=realize(reqarg, real), scheduler=real.get(sc))
                mj = MJob(n)
                m_requires(mj, realize(reqarg, model))
                names_.append(n)
                real[n], model[n] = rj, mj
                if sc:
                    model[sc].jobs.add(mj)
            elif op == 'seq':
                n = new_name('s')
                names_.pop()
                items = [pick('jsn') for _ in range(rng.randint(0, 4))]
                r = rng.random()
                reqarg = nest() if r < 0.3 else ('name', pick('jsn')) if r < 0.5 else ('name', None)
                sc = pick('Sn') if rng.random() < 0.4 else None
                desc = "%s = Sequence(%s, required=%s, scheduler=%s)" % (n, items, show(reqarg), sc)
                ms = MSeq()
                ms.jobs = m_flat([model.get(i) if i else None for i in items])
                if not ms.jobs and reqarg != ('name', None):
                    # requirements given to a sequence that is empty at that
                    # moment are dropped by the library on purpose: outside the domain
                    out.count('statements outside the domain (requirements on an empty sequence)')
                    continue
                rs = Sequence(*[real.get(i) if i else None for i in items],
                              required=realize(reqarg, real), scheduler=real.get(sc))
                for a, b in zip(ms.jobs, ms.jobs[1:]):
                    m_requires(b, a)
                if ms.jobs:
                    m_requires(ms.jobs[0], realize(reqarg, model))
                ms.sched = model.get(sc)
                if ms.sched:
                    ms.sched.jobs.update(ms.jobs)
                names_.append(n)
                real[n], model[n] = rs, ms
                if len(ms.jobs) != len(set(ms.jobs)):
                    out.count('sequences naming a job twice')
            elif op == 'append':
                s = pick('s', False)
                if not s:
                    continue
                items = [pick('jsn') for _ in range(rng.randint(0, 3))]
                desc = "%s.append(%s)" % (s, items)
                ms = model[s]
                new = m_flat([model.get(i) if i else None for i in items])
                if items:
                    chain = ms.jobs[-1:] + new
                    for a, b in zip(chain, chain[1:]):
                        m_requires(b, a)
                    ms.jobs += new
                    if ms.sched:
                        ms.sched.jobs.update(new)
                real[s].append(*[real.get(i) if i else None for i in items])
                out.count('append() statements')
                if len(new) >= 2:
                    out.count('append() with several jobs')
            elif op in ('requires', 'remove'):
                j = pick('jn', False)
                if not j:
                    continue
                args = [nest() for _ in range(rng.choice([1, 1, 2, 3]))]
                rem = op == 'remove'
                desc = "%s.requires(%s, remove=%s)" % (j, ", ".join(show(a) for a in args), rem)
                if len(args) > 1:
                    out.count('requires() called with several positional arguments')
                merr = rerr = None
                try:
                    for a in args:
                        m_requires(model[j], realize(a, model), rem)
                except KeyError:
                    merr = 'KeyError'
                try:
                    real[j].requires(*[realize(a, real) for a in args], remove=rem)
                except KeyError:
                    rerr = 'KeyError'
                out.count('requires(remove=%s) statements' % rem)
                if merr != rerr:
                    out.violation('keyerror', "statement %d `%s` after %s: documented semantics: %s, library: %s"
                                  % (step, desc, log, merr or 'no error', rerr or 'no error'))
                    break
                if merr:
                    out.count('KeyError on absent requirement')
                    # state after a partial removal is unspecified: resynchronise the model
                    for n in names_:
                        if n[0] in 'jn':
                            model[n].req = {model[x.name] for x in real[n].required}
            elif op == 'seqreq':
                s = pick('s', False)
                if not s:
                    continue
                args = [nest() for _ in range(rng.choice([1, 1, 2, 3]))]
                desc = "%s.requires(%s)" % (s, ", ".join(show(a) for a in args))
                if not model[s].jobs:
                    out.count('statements outside the domain (requirements on an empty sequence)')
                    continue
                for a in args:
                    m_requires(model[s].jobs[0], realize(a, model))
                real[s].requires(*[realize(a, real) for a in args])
            elif op == 'seqasreq':
                j = pick('jn', False)
                s = pick('s', False)
                if not j or not s:
                    continue
                rem = rng.random() < 0.3
                desc = "%s.requires(%s, remove=%s)" % (j, s, rem)
                merr = rerr = None
                try:
                    m_requires(model[j], model[s], rem)
                except KeyError:
                    merr = 'KeyError'
                try:
                    real[j].requires(real[s], remove=rem)
                except KeyError:
                    rerr = 'KeyError'
                out.count('sequence used as a requirement (remove=%s)' % rem)
                if merr != rerr:
                    out.violation('keyerror', "statement %d `%s` after %s: documented semantics: %s, library: %s"
                                  % (step, desc, log, merr or 'no error', rerr or 'no error'))
                    break
            elif op == 'add':
                sc, x = pick('Sn', False), pick('jsn', False)
                if not sc or not x:
                    continue
                desc = "%s.add(%s)" % (sc, x)
                real[sc].add(real[x])
                model[sc].jobs.update(m_flat([model[x]]))
            elif op == 'ran':
                # a job without requirements is run to completion on its own (in a
                # throw-away scheduler) before the construction goes on
                cands = [n for n in names_ if n[0] == 'j' and not real[n].required and not real[n].is_done()]
                if not cands:
                    continue
                j = rng.choice(cands)
                desc = "PureScheduler(%s).run()" % j
                import asyncio
                loop = asyncio.new_event_loop()
                try:
                    with contextlib.redirect_stdout(io.StringIO()):
                        loop.run_until_complete(asyncio.wait_for(PureScheduler(real[j]).co_run(), 60))
                finally:
                    loop.close()
                out.count('jobs run to completion before being used in further statements')
            elif op == 'leave':
                # a job leaves a scheduler (its requirements are its own business)
                sc = pick('Sn', False)
                if not sc or not model[sc].jobs:
                    continue
                x = rng.choice(sorted(model[sc].jobs, key=lambda j: j.name))
                desc = "%s.remove(%s)" % (sc, x.name)
                real[sc].remove(real[x.name])
                model[sc].jobs.discard(x)
                out.count('jobs leaving a scheduler between construction statements')
            elif op == 'look':
                # somebody looks at a scheduler in between (reverse links, numbering)
                sc = pick('Sn', False)
                if not sc:
                    continue
                what = rng.choice(['exit_jobs', 'entry_jobs', 'successors'])   # (none of them recurses)
                desc = "%s.%s(..)" % (sc, what)
                with contextlib.redirect_stdout(io.StringIO()):
                    if what == 'successors':
                        for j in list(real[sc].jobs)[:2]:
                            list(real[sc].successors(j))
                    elif what == 'sanitize':
                        real[sc].sanitize()
                        for j in model[sc].jobs:
                            j.req &= model[sc].jobs
                    else:
                        list(getattr(real[sc], what)() or ())
                out.count('schedulers looked at between construction statements')
            elif op == 'update':
                sc = pick('Sn', False)
                if not sc:
                    continue
                items = [pick('jsn') for _ in range(rng.randint(0, 3))]
                how = rng.choice(['list', 'list', 'tuple', 'set', 'generator'])
                desc = "%s.update(<%s> %s)" % (sc, how, items)
                objs = [real.get(i) if i else None for i in items]
                if how == 'tuple':
                    objs = tuple(objs)
                elif how == 'set':
                    objs = set(objs)
                elif how == 'generator':
                    objs = (x for x in list(objs))
                    out.count('update() given a generator')
                real[sc].update(objs)
                model[sc].jobs.update(m_flat([model.get(i) if i else None for i in items]))
        except BaseException as exc:                    # noqa
            out.violation('statement-raised', "statement %d `%s` after %s raised %r" % (step, desc, log, exc))
            break
        if desc is None:
            continue
        log.append(desc)
        out.count('statements interpreted by library and model')
        bad = compare("after statement %d `%s` (program so far: %s)" % (step, desc, log[:-1]))
        if bad:
            out.violation(*bad)
            break
    out.nontrivial = len(log) >= 3
    return finish(prop, out, key, index, tier, 'c19_program', (key,), dict(program=log))


CASES = {
    'c15_exhaustive': c15_exhaustive, 'c15_tree': c15_tree, 'c15_history': c15_history,
    'c16_tree': c16_tree,
    'c17_exhaustive': c17_exhaustive, 'c17_random': c17_random, 'c17_iterate': c17_iterate,
    'c17_large': c17_large,
    'c18_exhaustive': c18_exhaustive, 'c18_history': c18_history, 'c18_large': c18_large,
    'c19_program': c19_program,
}


def replay_case(prop, body):
    from . import dotcases                              # registers C20 cases
    if body['case'] == 'suite':
        from .suite import run_suite_case
        return run_suite_case(prop, body['key'], body['index'], body['tier'])
    return CASES[body['case']](prop, body['key'], body['index'], body['tier'])
