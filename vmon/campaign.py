"""
Campaigns: generate -> execute -> monitor, sharded over worker subprocesses;
verdict discipline, replay files, evidence files, known findings
(DESIGN.md 3.4).

exit codes: 0 held on everything explored, 1 violation, 2 inconclusive.
"""
import hashlib
import json
import os
import random
import subprocess
import sys
import time

from . import VERIF, REPO

NSHARDS = int(os.environ.get('VERIF_JOBS', '16'))
# where evidence/ and replays/ are written: /verif, except for self-tests on scratch copies
OUT = os.environ.get('VERIF_OUT', VERIF)
MAX_VIOLATIONS_KEPT = 12
MAX_REPLAYS_WRITTEN = 8


def _plans(prop):
    from . import plans
    if prop in plans.RUNTIME:
        return plans.RUNTIME[prop]
    from . import syncplans
    return syncplans.SYNC[prop]


def expand_sources(prop, tier):
    """(source index, kind, name, count-or-seeds, runner) with tier scaling"""
    from . import plans
    out = []
    for src in _plans(prop):
        kind = src[0]
        if kind == 'random':
            _, profile, n, runner = src
            if tier == 'thorough':
                n *= plans.THOROUGH_FACTOR
            out.append(dict(kind=kind, name=profile, n=n, runner=runner))
        elif kind == 'sweep':
            _, name, seeds, runner = src
            if tier == 'thorough':
                seeds = seeds * 3
            out.append(dict(kind=kind, name=name, seeds=seeds, runner=runner))
        elif kind == 'suite':
            if tier == 'thorough':
                out.append(dict(kind=kind, name='repo-tests', n=1, runner='live'))
        elif kind == 'cases':
            _, name, n, n_thorough = src
            if tier == 'thorough':
                n = n_thorough
            out.append(dict(kind=kind, name=name, n=n, runner='cases'))
    return out


# properties whose statement also speaks of a run that its caller cancels
# (asyncio.wait_for around co_run()); the others are about runs that end by
# themselves and report a verdict, or compare two runs instant by instant
CALLER_MAY_GIVE_UP = {'C01', 'C02', 'C03', 'C05', 'C07', 'C08', 'C09', 'C11', 'C13', 'C14'}


def iter_cases(prop, tier, seed, shard, nshards):
    """yields (source label, callable -> Case) for this shard"""
    from .spec import random_spec, SWEEPS, permute_hashes, admissible
    gi = 0
    strict = prop == 'C03'
    for src in expand_sources(prop, tier):
        label = "%s:%s/%s" % (src['kind'], src['name'], src['runner'])
        if src['kind'] == 'random':
            from .runners import RUNNERS
            runner = RUNNERS[src['runner']]
            for i in range(src['n']):
                gi += 1
                if gi % nshards != shard:
                    continue
                key = "%s:%s:%d" % (seed, src['name'], i)
                loop_seed = None if i % 4 == 0 else int(hashlib.md5(key.encode()).hexdigest()[:8], 16)

                def thunk(key=key, profile=src['name'], loop_seed=loop_seed, runner=runner):
                    spec = random_spec(key, profile)
                    if prop not in CALLER_MAY_GIVE_UP and isinstance(spec.get('entry'), dict):
                        spec['entry'] = 'co_run'
                    bad = admissible(spec, strict=strict)
                    if bad:
                        return ('discarded', bad)
                    return runner(prop, spec, loop_seed)
                yield label, thunk
        elif src['kind'] == 'sweep':
            from .runners import RUNNERS
            runner = RUNNERS[src['runner']]
            for i, spec in enumerate(SWEEPS[src['name']](tier == 'thorough')):
                for k in range(src['seeds']):
                    gi += 1
                    if gi % nshards != shard:
                        continue

                    def thunk(spec=spec, k=k, i=i, runner=runner):
                        bad = admissible(spec, strict=strict)
                        if bad:
                            return ('discarded', bad)
                        if k == 0:
                            return runner(prop, spec, None)
                        rng = random.Random("%s:%d:%d" % (seed, i, k))
                        return runner(prop, permute_hashes(spec, rng), rng.getrandbits(30))
                    yield label, thunk
        elif src['kind'] == 'suite':
            gi += 1
            if gi % nshards != shard:
                continue
            # the repository's suite needs pytest: primary interpreter only
            if os.environ.get('VERIF_PRIMARY_PYTHON', sys.executable) != sys.executable:
                continue
            from .suite import run_suite_case

            def thunk():
                return run_suite_case(prop, "suite", 0, tier)
            yield label, thunk
        else:
            from .synccases import CASES
            from . import dotcases                      # noqa: registers the C20 cases
            fn = CASES[src['name']]
            for i in range(src['n']):
                gi += 1
                if gi % nshards != shard:
                    continue

                def thunk(i=i, fn=fn, name=src['name']):
                    return fn(prop, "%s:%s:%d" % (seed, name, i), i, tier)
                yield label, thunk


def jsonable(x):
    try:
        json.dumps(x)
        return x
    except TypeError:
        if isinstance(x, dict):
            return {str(k): jsonable(v) for k, v in x.items()}
        if isinstance(x, (list, tuple, set)):
            return [jsonable(v) for v in x]
        return repr(x)


def worker(prop, tier, seed, shard, nshards, outpath):
    t0 = time.perf_counter()
    res = dict(cases=0, discarded=0, events=0, ties=0, counters={}, violations=[], nviol=0, nviol_by_key={},
               fingerprints=[], nontrivial=[], samples={}, per_source={}, errors=[], tags={})
    fps, ntfps = set(), set()
    counters = {}
    for label, thunk in iter_cases(prop, tier, seed, shard, nshards):
        try:
            case = thunk()
        except BaseException as exc:                    # noqa  harness error: inconclusive, never a verdict
            import traceback
            res['errors'].append("%s: %r\n%s" % (label, exc, traceback.format_exc()[-1500:]))
            if len(res['errors']) > 5:
                break
            continue
        if isinstance(case, tuple):
            res['discarded'] += 1
            continue
        res['cases'] += 1
        res['per_source'][label] = res['per_source'].get(label, 0) + 1
        res['events'] += case.events
        res['ties'] += case.ties
        for k, v in case.out.counters.items():
            counters[k] = counters.get(k, 0) + v
        for tg in case.out.tags:
            res['tags'][tg] = res['tags'].get(tg, 0) + 1
        if case.fingerprint is not None:
            fps.add(case.fingerprint)
            if case.out.nontrivial:
                ntfps.add(case.fingerprint)
        if case.sample is not None and case.out.nontrivial and label not in res['samples']:
            res['samples'][label] = jsonable(case.sample)
        if case.out.violations:
            res['nviol'] += 1
            vkey = getattr(case.out, 'key', None) or case.out.violations[0][0]
            res['nviol_by_key'][vkey] = res['nviol_by_key'].get(vkey, 0) + 1
            if len(res['violations']) < MAX_VIOLATIONS_KEPT:
                clause, message = case.out.violations[0]
                res['violations'].append(dict(
                    clause=clause, message=message, source=label,
                    key=getattr(case.out, 'key', None) or clause,
                    more=[list(v) for v in case.out.violations[1:6]],
                    replay=jsonable(case.replay)))
    res['counters'] = counters
    res['fingerprints'] = sorted(fps)
    res['nontrivial'] = sorted(ntfps)
    res['wall'] = time.perf_counter() - t0
    res['python'] = '%d.%d.%d' % sys.version_info[:3]
    with open(outpath, 'w') as f:
        json.dump(res, f)


def other_interpreter():
    """path of a second python interpreter able to import the library, or None
    (VERIF_OTHER_PYTHON overrides; 'none' disables)"""
    import shutil
    cand = os.environ.get('VERIF_OTHER_PYTHON')
    if cand == 'none':
        return None
    cand = cand or shutil.which('python3-vt')
    if not cand:
        return None
    try:
        r = subprocess.run([cand, '-c', 'import sys; print("%d.%d" % sys.version_info[:2])'],
                           capture_output=True, text=True, timeout=60)
    except (OSError, subprocess.TimeoutExpired):
        return None
    if r.returncode or r.stdout.strip() == "%d.%d" % sys.version_info[:2]:
        return None
    return cand


def _diverse(violations):
    """one violation per (clause, source) first, so that the replay files
    written show the different ways the property fails"""
    seen, first, rest = set(), [], []
    for v in violations:
        k = (v['clause'], v['source'])
        (rest if k in seen else first).append(v)
        seen.add(k)
    return first + rest


# ------------------------------------------------------------------ known findings
def known_findings(prop):
    """lines of KNOWN_FINDINGS.txt: `finding: property=<id> key=<mechanism> <text>`;
    `fixed:` lines suppress nothing.  Read-only at run time."""
    found = {}
    # (VERIF_KNOWN_FINDINGS: another read-only file, used to re-evaluate historical trees)
    path = os.environ.get('VERIF_KNOWN_FINDINGS') or os.path.join(VERIF, 'KNOWN_FINDINGS.txt')
    if not os.path.exists(path):
        return found
    for line in open(path):
        line = line.strip()
        if not line.startswith('finding:'):
            continue
        parts = line[len('finding:'):].split()
        fields = dict(p.split('=', 1) for p in parts[:2] if '=' in p)
        if fields.get('property') == prop and 'key' in fields:
            found[fields['key']] = ' '.join(parts[2:])
    return found


# ------------------------------------------------------------------ parent
def level_of(prop):
    return 'exploration'


def run_check(prop, tier, seed):
    from . import plans
    t0 = time.time()
    scratch = os.path.join(OUT, '.scratch', '%s-%s-%d' % (prop, tier, os.getpid()))
    os.makedirs(scratch, exist_ok=True)
    nshards = NSHARDS
    env = dict(os.environ, PYTHONHASHSEED='0', VERIF_REPO=REPO, VERIF_PRIMARY_PYTHON=sys.executable)
    procs = []
    plan = [(sys.executable, shard) for shard in range(nshards)]
    # second platform: the same library on another interpreter (different
    # asyncio internals, e.g. gather() on finished tasks yields before 3.12):
    # a quarter of the workload is run again under it
    other = other_interpreter()
    n_other = 0
    if other:
        # quick: a quarter of the workload again; thorough: all of it again
        n_other = nshards if tier == 'thorough' else max(1, nshards // 4)
        plan += [(other, shard) for shard in range(n_other)]
    for k, (exe_, shard) in enumerate(plan):
        outpath = os.path.join(scratch, 'shard%d.json' % k)
        cmd = [exe_, '-B', '-m', 'vmon.campaign', '--worker', prop, tier, str(seed),
               str(shard), str(nshards), outpath]
        procs.append((subprocess.Popen(cmd, cwd=VERIF, env=env, stdout=subprocess.PIPE,
                                       stderr=subprocess.STDOUT), outpath))
    watchdog = float(os.environ.get('VERIF_WATCHDOG', 1500 if tier == 'quick' else 6 * 3600))
    inconclusive = []
    by_python = {}
    merged = dict(cases=0, discarded=0, events=0, ties=0, nviol=0, nviol_by_key={}, counters={}, violations=[],
                  samples={}, per_source={}, errors=[], tags={})
    fps, ntfps = set(), set()
    for shard, (proc, outpath) in enumerate(procs):
        try:
            out, _ = proc.communicate(timeout=max(1, watchdog - (time.time() - t0)))
        except subprocess.TimeoutExpired:
            proc.kill()
            proc.communicate()
            inconclusive.append("shard %d: wall-clock watchdog fired (not a verdict)" % shard)
            continue
        if proc.returncode != 0 or not os.path.exists(outpath):
            inconclusive.append("shard %d: worker failed (exit %s): %s"
                                % (shard, proc.returncode, out.decode(errors='replace')[-800:]))
            continue
        res = json.load(open(outpath))
        by_python[res.get('python', '?')] = by_python.get(res.get('python', '?'), 0) + res['cases']
        for v in res['violations']:
            v['python'] = res.get('python')
        for k in ('cases', 'discarded', 'events', 'ties', 'nviol'):
            merged[k] += res[k]
        for k, v in res['counters'].items():
            merged['counters'][k] = merged['counters'].get(k, 0) + v
        for k, v in res['per_source'].items():
            merged['per_source'][k] = merged['per_source'].get(k, 0) + v
        for k, v in res['tags'].items():
            merged['tags'][k] = merged['tags'].get(k, 0) + v
        for k, v in res['nviol_by_key'].items():
            merged['nviol_by_key'][k] = merged['nviol_by_key'].get(k, 0) + v
        merged['violations'] += res['violations']
        for k, v in res['samples'].items():
            merged['samples'].setdefault(k, v)
        merged['errors'] += res['errors']
        fps.update(res['fingerprints'])
        ntfps.update(res['nontrivial'])
    for f in os.listdir(scratch):
        os.unlink(os.path.join(scratch, f))
    os.rmdir(scratch)
    try:
        os.rmdir(os.path.join(OUT, '.scratch'))
    except OSError:
        pass
    for err in merged['errors']:
        inconclusive.append("harness error: " + err)

    # ---- violations: known findings vs new
    known = known_findings(prop)
    new, seen_known = [], {}
    for v in merged['violations']:
        if v['key'] in known:
            seen_known.setdefault(v['key'], v)
        else:
            new.append(v)
    n_new = sum(v for k, v in merged['nviol_by_key'].items() if k not in known)
    n_known = merged['nviol'] - n_new
    replay_dir = os.path.join(OUT, 'replays', prop)
    lines = []
    for v in _diverse(new)[:MAX_REPLAYS_WRITTEN]:
        os.makedirs(replay_dir, exist_ok=True)
        body = dict(property=prop, clause=v['clause'], mechanism=v['key'], message=v['message'], source=v['source'],
                    python=v.get('python'),
                    more=v['more'], **v['replay'])
        digest = hashlib.md5(json.dumps(body, sort_keys=True).encode()).hexdigest()[:12]
        path = os.path.join('replays', prop, digest + '.json')
        with open(os.path.join(OUT, path), 'w') as f:
            json.dump(body, f, indent=1)
        lines.append("VIOLATION property=%s replay=%s" % (prop, path))
        lines.append("  clause=%s source=%s python=%s: %s" % (v['clause'], v['source'], v.get('python'), v['message']))

    # ---- deciding clauses
    deciding = _deciding(prop)
    missing = [k for k in deciding if not merged['counters'].get(k)]
    if missing and not new:
        inconclusive.append("deciding clause(s) never evaluated on a non-vacuous instance: %s" % missing)
    if merged['cases'] == 0:
        inconclusive.append("no case was executed")

    wall = time.time() - t0
    samples = list(merged['samples'].values())[:4]
    if not samples:
        samples = [dict(note="no non-trivial sample recorded")]
    coverage = dict(
        evaluations=merged['cases'],
        distinct_nontrivial=len(ntfps),
        distinct_cases=len(fps),
        rule=_rule(prop),
        samples=samples,
        events_observed=merged['events'],
        equal_deadline_timer_ties=merged['ties'],
        discarded_not_admissible=merged['discarded'],
        cases_per_source=merged['per_source'],
        cases_per_interpreter=by_python,
        clause_counters=dict(sorted(merged['counters'].items())),
        deciding_clauses={k: merged['counters'].get(k, 0) for k in deciding},
        tags=merged['tags'],
        shards=len(plan),
        verdict='violated' if new else ('inconclusive' if inconclusive else 'held on what was observed'),
        known_findings_seen=sorted(seen_known),
        known_finding_cases=n_known,
        inconclusive_reasons=inconclusive,
        exhaustive=False,
    )
    evidence = dict(property_id=prop, tier=tier, seed=int(seed), level=level_of(prop), coverage=coverage,
                    assumptions=_assumptions(prop), wall_s=round(wall, 2), violations=n_new)
    os.makedirs(os.path.join(OUT, 'evidence'), exist_ok=True)
    with open(os.path.join(OUT, 'evidence', prop + '.json'), 'w') as f:
        json.dump(evidence, f, indent=1, sort_keys=False)

    print("%s tier=%s seed=%s repo=%s: %d cases (%d distinct, %d distinct non-trivial), %d events, "
          "%d discarded, %.1fs; interpreters %s" % (prop, tier, seed, REPO, merged['cases'], len(fps), len(ntfps),
                                                    merged['events'], merged['discarded'], wall, by_python))
    for k in deciding:
        print("  observed %-70s %d" % (k, merged['counters'].get(k, 0)))
    for key, v in seen_known.items():
        print("KNOWN-FINDING: property=%s key=%s %s" % (prop, key, known[key]))
    for line in lines:
        print(line)
    if new:
        print("%s: %d violating case(s) among %d, %d replay file(s) written"
              % (prop, n_new, merged['cases'], min(len(new), MAX_REPLAYS_WRITTEN)))
        return 1
    if inconclusive:
        for reason in inconclusive:
            print("INCONCLUSIVE property=%s %s" % (prop, reason))
        return 2
    print("%s: held on everything explored" % prop)
    return 0


def _deciding(prop):
    from . import plans
    if prop in plans.DECIDING:
        return plans.DECIDING[prop]
    from . import syncplans
    return syncplans.DECIDING[prop]


def _rule(prop):
    from . import plans
    if prop in plans.RULES:
        return plans.RULES[prop]
    from . import syncplans
    return syncplans.RULES[prop]


def _assumptions(prop):
    base = ["CPython 3.12 stdlib asyncio selector event loop; only the clock and the blocking select are "
            "substituted (virtual time)", "time.time() and the loop clock are the same clock",
            "jobs honour cancellation in finite time and shutdown handlers do not raise",
            "library imported from %s (current working tree)" % REPO]
    from . import plans
    if prop not in plans.RUNTIME:
        base = ["library imported from %s (current working tree)" % REPO,
                "reference models in vmon/refmodel.py state the documented semantics"]
    return base


# ------------------------------------------------------------------ replay
def replay(prop, path):
    body = json.load(open(path))
    # a violation seen under the other interpreter is replayed under it
    want = (body.get('python') or '').rsplit('.', 1)[0]
    if want and want != "%d.%d" % sys.version_info[:2] and not os.environ.get('VERIF_NO_REEXEC'):
        other = other_interpreter()
        if other:
            os.environ['VERIF_NO_REEXEC'] = '1'
            os.execv(other, [other, '-B', '-m', 'vmon.campaign', prop, '--replay', path])
    from . import plans
    if prop in plans.RUNTIME:
        from .runners import RUNNERS, run_c06
        from .jobs import execute
        spec = body['spec']
        if 'flip' in body:
            case = run_c06(prop, spec, body.get('loop_seed'), flip=body['flip'])
        elif body.get('perm'):
            case = RUNNERS['perm'](prop, spec, body.get('loop_seed'))
        elif body.get('twin'):
            case = RUNNERS['twin'](prop, spec, body.get('loop_seed'))
        else:
            runner = 'poll' if prop == 'C14' else 'trace'
            case = RUNNERS[runner](prop, spec, body.get('loop_seed'))
            exe = execute(spec, loop_seed=body.get('loop_seed'))
            print("spec:", json.dumps(spec))
            print("verdict:", exe.verdict)
            for e in exe.trace.events:
                extra = {k: v for k, v in e.items() if k not in ('seq', 't', 'it', 'kind', 'who')}
                print("  %4d t=%-5s it=%-4d %-14s %-8s %s" % (e['seq'], e['t'], e['it'], e['kind'], e['who'],
                                                             extra or ''))
    else:
        from .synccases import replay_case
        case = replay_case(prop, body)
    if case.out.violations:
        for clause, message in case.out.violations:
            print("VIOLATION-DETAIL clause=%s: %s" % (clause, message))
        print("VIOLATION property=%s replay=%s" % (prop, path))
        return 1
    print("replay of %s: no violation reproduced" % path)
    return 0


def main(argv=None):
    argv = list(sys.argv[1:] if argv is None else argv)
    if argv and argv[0] == '--worker':
        _, prop, tier, seed, shard, nshards, outpath = argv
        worker(prop, tier, seed, int(shard), int(nshards), outpath)
        return 0
    prop = argv[0]
    tier = os.environ.get('VERIF_TIER', 'quick')
    seed = os.environ.get('VERIF_SEED', '0')
    rp = None
    i = 1
    while i < len(argv):
        if argv[i] == '--tier':
            tier = argv[i + 1]
            i += 2
        elif argv[i] == '--seed':
            seed = argv[i + 1]
            i += 2
        elif argv[i] == '--replay':
            rp = argv[i + 1]
            i += 2
        else:
            raise SystemExit("unknown argument %s" % argv[i])
    try:
        seed = int(seed)
    except ValueError:
        seed = int(hashlib.md5(str(seed).encode()).hexdigest()[:7], 16)
    if tier not in ('quick', 'thorough'):
        raise SystemExit("tier must be quick or thorough")
    if rp:
        return replay(prop, rp)
    return run_check(prop, tier, seed)


if __name__ == '__main__':
    sys.exit(main())
