"""
Live monitors: the same oracles attached to the real library classes while
*somebody else's* program runs (the repository's own test-suite), on the real
event loop with the real clock (DESIGN.md 3.5 "the same wrappers are also
switched on while the repository's own test-suite runs, as one more workload").

Two families:

* runtime ordering monitors (C01, C02, C07, C11, C13): every co_run / co_shutdown
  of every job class (library classes, and any subclass defined later, through
  __init_subclass__) is wrapped to log boundary events; when a top-level
  scheduler run ends the log is replayed through the ordering clauses.  Only
  sequence-based clauses are used here: with a real clock, equal instants do
  not exist and durations carry scheduling noise, so every time-based clause
  stays with the virtual-time campaigns.
* contract monitors (C15-C18, C20) around the synchronous API: pre-state
  snapshot, real call, post-state compared with the reference model.

Wrappers record and return; they never raise into the program under test.
"""
import asyncio
import collections
import contextlib
import io
import itertools
import json
import os

from . import use_repo
from . import refmodel as R

use_repo()
import asynciojobs                                                      # noqa: E402
from asynciojobs import AbstractJob, PureScheduler, Scheduler, Job, PrintJob   # noqa: E402


class Recorder:
    def __init__(self):
        self.events = []
        self.active_tops = 0
        self.top_start = 0
        self.counters = collections.Counter()
        self.violations = []          # dicts(property, clause, message)
        self.names = {}
        self.keep = []                # strong references so that id() stays unique

    def name(self, obj):
        k = id(obj)
        if k not in self.names:
            self.names[k] = "%s#%d" % (type(obj).__name__, len(self.names))
            self.keep.append(obj)
        return self.names[k]

    def log(self, kind, obj, **extra):
        e = dict(seq=len(self.events), t=0.0, it=0, kind=kind, who=self.name(obj))
        e.update(extra)
        self.events.append(e)

    def violation(self, prop, clause, message):
        self.counters['violations'] += 1
        if len(self.violations) < 50:
            self.violations.append(dict(property=prop, clause=clause, message=message))

    def count(self, prop, key, n=1):
        self.counters["%s: %s" % (prop, key)] += n


REC = Recorder()


# ------------------------------------------------------------------ runtime wrappers
def _wrap_co_run(fn):
    if getattr(fn, '_vmon', False):
        return fn

    async def co_run(self, *args, **kwds):
        if getattr(self, '_vmon_in_run', False):
            return await fn(self, *args, **kwds)       # super().co_run() of the same object
        is_sched = isinstance(self, PureScheduler)
        self._vmon_in_run = True
        top = False
        if is_sched and REC.active_tops == 0:
            top = True
            REC.top_start = len(REC.events)
        if is_sched:
            REC.active_tops += 1
        REC.log('run_enter' if is_sched else 'enter', self)
        try:
            value = await fn(self, *args, **kwds)
        except asyncio.CancelledError:
            if is_sched:
                REC.log('run_cancel', self)
            else:
                REC.log('cancel', self)
                REC.log('cancel_done', self)
            raise
        except BaseException as exc:                    # noqa
            REC.log('run_raise' if is_sched else 'raise', self, exc=exc)
            raise
        else:
            REC.log('run_return' if is_sched else 'return', self, val=value)
            return value
        finally:
            self._vmon_in_run = False
            if is_sched:
                REC.active_tops -= 1
            if top:
                try:
                    analyse_run(self)
                except BaseException as exc:            # noqa  never disturb the program under test
                    REC.count('harness', 'analysis errors: %r' % (exc,))
    co_run._vmon = True
    co_run.__wrapped__ = fn
    return co_run


def _wrap_co_shutdown(fn):
    if getattr(fn, '_vmon', False):
        return fn

    async def co_shutdown(self, *args, **kwds):
        if getattr(self, '_vmon_in_sd', False):
            return await fn(self, *args, **kwds)
        is_sched = isinstance(self, PureScheduler)
        self._vmon_in_sd = True
        REC.log('shut_enter' if is_sched else 'sd_enter', self)
        try:
            value = await fn(self, *args, **kwds)
        except asyncio.CancelledError:
            REC.log('shut_cancel' if is_sched else 'sd_cancel', self)
            raise
        else:
            REC.log('shut_return' if is_sched else 'sd_return', self, val=value)
            return value
        finally:
            self._vmon_in_sd = False
    co_shutdown._vmon = True
    co_shutdown.__wrapped__ = fn
    return co_shutdown


def _wrap_class(cls):
    for name, wrapper in (('co_run', _wrap_co_run), ('co_shutdown', _wrap_co_shutdown)):
        fn = cls.__dict__.get(name)
        if fn is not None and asyncio.iscoroutinefunction(fn):
            setattr(cls, name, wrapper(fn))


def install_runtime():
    for cls in (AbstractJob, Job, PrintJob, PureScheduler, Scheduler):
        _wrap_class(cls)

    def __init_subclass__(cls, **kw):
        super(AbstractJob, cls).__init_subclass__(**kw)
        _wrap_class(cls)
    AbstractJob.__init_subclass__ = classmethod(__init_subclass__)
    PureScheduler.__init_subclass__ = classmethod(
        lambda cls, **kw: _wrap_class(cls))


# ------------------------------------------------------------------ analysis of one top-level run
class _Exe:
    pass


class _Trace:
    pass


def spec_of(top):
    """a scenario spec (vmon.spec format) read from live objects"""
    def node(obj):
        if isinstance(obj, PureScheduler):
            members = list(obj.jobs)
            names = {id(j): REC.name(j) for j in members}
            edges = []
            for j in members:
                for r in getattr(j, 'required', ()):
                    if id(r) in names:
                        edges.append([names[id(j)], names[id(r)]])
            return dict(id=REC.name(obj), jobs=[node(j) for j in members], edges=edges,
                        window=obj.jobs_window, timeout=obj.timeout, sdt=obj.shutdown_timeout,
                        critical=getattr(obj, 'critical', False), forever=getattr(obj, 'forever', False),
                        pure=not isinstance(obj, AbstractJob))
        return dict(id=REC.name(obj), critical=obj.critical, forever=obj.forever)
    return node(top)


def analyse_run(top):
    from .model import Model
    from .monitors import Out, mon_c01, mon_c02, mon_c07
    spec = spec_of(top)
    exe = _Exe()
    exe.spec = spec
    exe.trace = _Trace()
    exe.trace.events = [dict(e, seq=i) for i, e in enumerate(REC.events[REC.top_start:])]
    exe.required_before = exe.required_after = {}
    exe.terminated = True
    exe.verdict = ('return', None)
    m = Model(exe)
    closed = all(set(getattr(j, 'required', ())) <= set(s.jobs)
                 for s in [top] + [x for x in top.iterate_jobs(scan_schedulers=True) if isinstance(x, PureScheduler)]
                 for j in s.jobs)
    REC.count('runtime', 'top-level scheduler runs analysed')
    REC.count('runtime', 'job events replayed', len(exe.trace.events))
    if not closed:
        REC.count('runtime', 'runs of schedulers that are not closed (not judged)')
        return
    for prop, mon in (('C01', mon_c01), ('C02', mon_c02), ('C07', mon_c07)):
        out = Out(prop)
        mon(m, out)
        for k, v in out.counters.items():
            REC.count(prop, k, v)
        for clause, message in out.violations:
            REC.violation(prop, clause, message)
    # C11 / C13, sequence-based clauses only
    for s in m.scheds():
        a = m.run(s)
        if a is None or a.rend is None:
            continue
        rend = a.rend
        for j in m.subtree_all(s):
            en, be = m.enter(j), m.body_end(j)
            REC.count('C11', 'jobs checked at a scheduler run end')
            if en is not None and en['seq'] < rend['seq'] and (be is None or be['seq'] > rend['seq']):
                REC.violation('C11', 'job-still-executing', "%s ended (%s) while %s was still executing"
                              % (s, rend['kind'], j))
        if rend['kind'] != 'run_cancel':
            for atom in m.subtree_atoms(s):
                n = len([x for x in m.all(atom, ('sd_enter',)) if x['seq'] < rend['seq']])
                REC.count('C13', 'atoms counted at a run end')
                if n != 1:
                    REC.violation('C13', 'shutdown-count-at-end', "%s ended (%s) but %s had received co_shutdown() "
                                  "%d time(s)" % (s, rend['kind'], atom, n))
        marks = m.all(s, ('shut_enter',)) + [x for j in a.dj if not m.is_sched[j] for x in m.all(j, ('sd_enter',))]
        for x in marks:
            for k in a.dj:
                en, be = m.enter(k), m.body_end(k)
                REC.count('C13', 'shutdown events checked against running siblings')
                if en is not None and en['seq'] < x['seq'] and (be is None or be['seq'] > x['seq']):
                    REC.violation('C13', 'shutdown-while-running', "%s: %s of %s while %s was still running"
                                  % (s, x['kind'], x['who'], k))


# ------------------------------------------------------------------ contract wrappers (synchronous API)
def _names(jobs):
    return {REC.name(j) for j in jobs}


def _snapshot(sched):
    members = _names(sched.jobs)
    req = {REC.name(j): _names(getattr(j, 'required', ())) for j in sched.jobs}
    return members, req


def _closed(sched):
    members, req = _snapshot(sched)
    return all(bs <= members for bs in req.values())


def _tree_ok(sched, nested):
    """reference for check_cycles(): own level, and nested levels for a nestable Scheduler"""
    members, req = _snapshot(sched)
    if not R.is_acyclic(req, members) or not all(bs <= members for bs in req.values()):
        return False
    if nested:
        for j in sched.jobs:
            if isinstance(j, Scheduler) and not _tree_ok(j, True):
                return False
    return True


def install_contracts():
    P = PureScheduler

    def wrap(cls, name, maker):
        fn = cls.__dict__[name]
        if getattr(fn, '_vmon', False):
            return
        new = maker(fn)
        new._vmon = True
        setattr(cls, name, new)

    def mk_check_cycles(nested):
        def maker(fn):
            def check_cycles(self):
                got = fn(self)
                try:
                    want = _tree_ok(self, nested)
                    REC.count('C15', 'check_cycles() calls compared')
                    if got is not want:
                        REC.violation('C15', 'check_cycles-wrong', "check_cycles() returned %r, reference says %r for %r"
                                      % (got, want, _snapshot(self)[1]))
                except BaseException as exc:            # noqa
                    REC.count('harness', 'contract errors: %r' % (exc,))
                return got
            return check_cycles
        return maker
    wrap(P, 'check_cycles', mk_check_cycles(False))
    wrap(Scheduler, 'check_cycles', mk_check_cycles(True))

    def mk_topo(fn):
        def topological_order(self):
            members, req = _snapshot(self)
            closed = all(bs <= members for bs in req.values())
            acyclic = R.is_acyclic(req, members)
            order = []
            try:
                for job in fn(self):
                    order.append(REC.name(job))
                    yield job
            except GeneratorExit:
                raise
            except BaseException:                       # noqa
                if closed:
                    REC.count('C15', 'topological_order() raising')
                    if acyclic:
                        REC.violation('C15', 'order-raised-on-dag', "topological_order() raised on acyclic %r" % (req,))
                raise
            if closed:
                REC.count('C15', 'topological_order() completed')
                if not acyclic:
                    REC.violation('C15', 'order-silent-on-cycle', "topological_order() yielded %s on cyclic %r" % (order, req))
                elif not R.valid_topological_order(order, req, members):
                    REC.violation('C15', 'order-invalid', "topological_order() yielded %s for %r" % (order, req))
        return topological_order
    wrap(P, 'topological_order', mk_topo)

    def mk_sanitize(fn):
        def sanitize(self, *a, **k):
            depth = getattr(REC, '_sanitize_depth', 0)
            REC._sanitize_depth = depth + 1
            try:
                if depth:
                    return fn(self, *a, **k)            # recursive call: judged at the outermost level
                scheds = [self] + [x for x in self.iterate_jobs(scan_schedulers=True)
                                   if isinstance(x, PureScheduler) and x is not self]
                before = {REC.name(s): _snapshot(s) for s in scheds}
                got = fn(self, *a, **k)
                REC.count('C16', 'sanitize() calls compared')
                fine = True
                for s in scheds:
                    members, req = before[REC.name(s)]
                    m2, r2 = _snapshot(s)
                    for j in members & m2:
                        want = req[j] & members
                        if want != req[j]:
                            fine = False
                        if r2[j] != want:
                            REC.violation('C16', 'requirements-after', "after sanitize() %s requires %s, expected %s"
                                          % (j, sorted(r2[j]), sorted(want)))
                if got is not fine:
                    REC.violation('C16', 'result-untruthful', "sanitize() returned %r, nothing-to-remove is %r" % (got, fine))
                return got
            finally:
                REC._sanitize_depth = depth
        return sanitize
    wrap(P, 'sanitize', mk_sanitize)

    def mk_query(name, attr, transitive):
        def maker(fn):
            def query(self, *starts, **kw):
                got = fn(self, *starts, **kw)
                try:
                    members, req = _snapshot(self)
                    rq = {a: req[a] & members for a in members}
                    rel = rq if attr == 'required' else R.reverse(rq, members)
                    if transitive:
                        rel = R.closure(rel, members)
                    snames = [REC.name(s) for s in starts]
                    if all(s in members for s in snames):
                        want = set().union(*[rel[s] for s in snames]) if snames else set()
                        if not hasattr(got, '__len__'):
                            got = list(got)
                        gn = _names(got)
                        REC.count('C17', 'neighbour/closure queries compared')
                        if gn != want:
                            REC.violation('C17', 'query-wrong', "%s(%s) = %s, expected %s" % (name, snames, sorted(gn), sorted(want)))
                        return iter(got) if name == 'successors' else got
                except BaseException as exc:            # noqa
                    REC.count('harness', 'contract errors: %r' % (exc,))
                return got
            return query
        return maker
    wrap(P, 'predecessors', mk_query('predecessors', 'required', False))
    wrap(P, 'successors', mk_query('successors', 'succ', False))
    wrap(P, 'predecessors_upstream', mk_query('predecessors_upstream', 'required', True))
    wrap(P, 'successors_downstream', mk_query('successors_downstream', 'succ', True))

    def mk_bypass(fn):
        def bypass_and_remove(self, job):
            members, req = _snapshot(self)
            ok = job in self.jobs and all(bs <= members for bs in req.values()) and R.is_acyclic(req, members)
            before = R.closure(req, members) if ok else None
            result = fn(self, job)
            if ok:
                target = REC.name(job)
                m2, r2 = _snapshot(self)
                REC.count('C18', 'bypass_and_remove() calls compared')
                if m2 != members - {target}:
                    REC.violation('C18', 'bypass-members', "after bypass_and_remove(%s) members are %s" % (target, sorted(m2)))
                else:
                    after = R.closure(r2, m2)
                    for a in m2:
                        if after[a] != before[a] - {target}:
                            REC.violation('C18', 'bypass-precedence', "after bypass_and_remove(%s), %s must run after %s, was %s"
                                          % (target, a, sorted(after[a]), sorted(before[a] - {target})))
                    if not all(bs <= m2 for bs in r2.values()):
                        REC.violation('C18', 'not-closed-after', "bypass_and_remove(%s) left dangling requirements" % target)
            return result
        return bypass_and_remove
    wrap(P, 'bypass_and_remove', mk_bypass)

    def mk_keep_only(fn):
        def keep_only(self, remains):
            remains = list(remains)
            members, req = _snapshot(self)
            result = fn(self, remains)
            keep = _names(remains)
            m2, r2 = _snapshot(self)
            REC.count('C18', 'keep_only() calls compared')
            if m2 != members & keep:
                REC.violation('C18', 'keep_only-members', "keep_only(%s) kept %s" % (sorted(keep), sorted(m2)))
            else:
                for a in m2:
                    if r2[a] != req[a] & m2:
                        REC.violation('C18', 'keep_only-requirements', "keep_only: %s requires %s, expected %s"
                                      % (a, sorted(r2[a]), sorted(req[a] & m2)))
            return result
        return keep_only
    wrap(P, 'keep_only', mk_keep_only)

    def mk_between(fn):
        def keep_only_between(self, *, starts=None, ends=None, keep_starts=True, keep_ends=True):
            s_list = list(starts) if starts is not None else []
            e_list = list(ends) if ends is not None else []
            members, req = _snapshot(self)
            result = fn(self, starts=s_list if starts is not None else None,
                        ends=e_list if ends is not None else None, keep_starts=keep_starts, keep_ends=keep_ends)
            sn, en = _names(s_list), _names(e_list)
            if sn <= members and en <= members:
                rq = {a: req[a] & members for a in members}
                succ = R.reverse(rq, members)
                up, down = R.closure(rq, members), R.closure(succ, members)
                downs = set().union(*[down[s] for s in sn]) if sn else set(members)
                ups = set().union(*[up[e] for e in en]) if en else set(members)
                kept = downs & ups
                if keep_starts:
                    kept |= sn
                if keep_ends:
                    kept |= en
                m2, r2 = _snapshot(self)
                REC.count('C18', 'keep_only_between() calls compared')
                if m2 != kept:
                    REC.violation('C18', 'between-members', "keep_only_between(starts=%s, ends=%s, %s, %s) kept %s, expected %s"
                                  % (sorted(sn), sorted(en), keep_starts, keep_ends, sorted(m2), sorted(kept)))
                else:
                    for a in m2:
                        if r2[a] != req[a] & m2:
                            REC.violation('C18', 'between-requirements', "%s requires %s, expected %s"
                                          % (a, sorted(r2[a]), sorted(req[a] & m2)))
            return result
        return keep_only_between
    wrap(P, 'keep_only_between', mk_between)

    def mk_dot(fn):
        def dot_format(self):
            text = fn(self)
            try:
                _check_dot_live(self, text)
            except BaseException as exc:                # noqa
                REC.count('harness', 'contract errors: %r' % (exc,))
            return text
        return dot_format
    wrap(P, 'dot_format', mk_dot)


def _check_dot_live(top, text):
    from .monitors import Out
    from . import dotcases
    info = dict(atoms=[], nested=[], parent={}, label={}, empties=[], top=top)

    def walk(s):
        for j in s.jobs:
            info['parent'][j] = s
            gl = j.graph_label()
            info['label'][j] = None if gl is not None else j._get_text_label()
            if isinstance(j, PureScheduler):
                info['nested'].append(j)
                if not j.jobs:
                    info['empties'].append(j)
                walk(j)
            else:
                info['atoms'].append(j)
    walk(top)
    closed_acyclic = all(_tree_ok(s, False) for s in [top] + info['nested'])
    if not closed_acyclic:
        REC.count('C20', 'exports of trees that are not closed and acyclic (not judged)')
        return
    for j in list(info['label']):
        if '\\' in str(info['label'][j] if info['label'][j] is not None else j.graph_label()):
            REC.count('C20', 'exports with a backslash in a label (outside the domain, not judged)')
            return
    out = Out('C20')

    # labels: expected text is "<id>: <text label>" or the class's own graph_label()
    class _Lab(dict):
        pass
    labels = {}
    for j, lab in info['label'].items():
        labels[j] = lab
    orig = dotcases._check_style

    def style(out_, attrs, job, info_, is_sched):
        want = job.graph_label() if info_['label'][job] is None else "%s: %s" % (job.repr_id(), info_['label'][job])
        if not hasattr(job, 'name'):
            job.name = REC.name(job)
        saved = info_['label'][job]
        try:
            # _check_style formats "<id>: <label>" itself
            if saved is None:
                got = attrs.get('label')
                out_.count('style/label attribute sets checked')
                if got != want:
                    out_.violation('label', "label of %s is %r after unquoting, expected %r" % (job.name, got, want))
                return
            return orig(out_, attrs, job, info_, is_sched)
        finally:
            info_['label'][job] = saved
    dotcases._check_style = style
    try:
        for j in info['atoms'] + info['nested']:
            if not hasattr(j, 'name'):
                j.name = REC.name(j)
        dotcases.check_dot(out, top, info, text)
    finally:
        dotcases._check_style = orig
    REC.count('C20', 'dot_format() outputs checked')
    for k, v in out.counters.items():
        REC.count('C20', k, v)
    for clause, message in out.violations:
        REC.violation('C20', clause, message)


def install():
    install_runtime()
    install_contracts()


def report():
    return dict(counters=dict(REC.counters), violations=REC.violations,
                events=len(REC.events))


def write_report(path):
    with open(path, 'w') as f:
        json.dump(report(), f, indent=1, default=repr)
